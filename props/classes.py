"""Witness classes of known findings, in the contract language (evaluated symbolically)."""
import z3

from contracts.lib import T, QF, clock, max_dur, max_dur_none, cs_chan, cs_arr, cs_len, s_tf, s_pulse, FALL, in_eom, LPSI, lps_none
from pyvc.contracts import QF as _QF

CLASSES = {}


def cls(name):
    def deco(f):
        CLASSES[name] = f
        return f
    return deco


@cls("max_duration-not-a-clock-multiple")
def _c1(ob, con):
    self = z3.Const("self", z3.DeclareSort("Ref"))
    c, M = clock(self), max_dur(self)
    # inside the class  <=>  max_duration defined and not of the form c*q
    return z3.And(z3.Not(max_dur_none(self)), M != c * _QF(c, M))
