"""Witness classes of known findings, in the contract language (evaluated symbolically)."""
import z3

from contracts.lib import T, clock, max_dur, max_dur_none, cs_chan, cs_arr, cs_len, s_tf, s_pulse, FALL, in_eom, LPSI, lps_none
from pyvc.contracts import QF as _QF

CLASSES = {}


def cls(name):
    def deco(f):
        CLASSES[name] = f
        return f
    return deco


@cls("max_duration-not-a-clock-multiple")
def _c1(ob, con):
    self = z3.Const("self", z3.DeclareSort("Ref"))
    c, M = clock(self), max_dur(self)
    # inside the class  <=>  max_duration defined and not of the form c*q
    inside = z3.And(z3.Not(max_dur_none(self)), M != c * _QF(c, M))
    d = z3.Int("duration")
    a, qM = d / c, _QF(c, M)
    hints = [d == c * a + d % c, z3.Implies(a >= qM, c * a >= c * qM)]     # division identity; monotonicity of multiplication by c >= 1
    return inside, hints


def _entry():
    from pyvc.core import Heap, Ref, PStr
    h = Heap(tag="H0")
    return h, z3.Const("self", Ref), z3.Const("channel", PStr)


@cls("pending-fall-time-before-failing-step")
def _c2(ob, con):
    """the channel has a pulse whose fall time has not elapsed (so wait_for_fall inserts a delay before the step that raises)."""
    from contracts.lib import sch_get
    from pyvc.core import uf, Ref
    h, sch, chan = _entry()
    if con is not None and con.qual.startswith("Sequence."):
        sch = uf("Sequence._schedule", Ref, Ref)(sch)       # `self` is the Sequence: its schedule
    cs = sch_get(h, sch, chan)
    arr, n = cs_arr(h, cs), cs_len(h, cs)
    f = z3.BoolVal(False)
    L = LPSI(arr, n, f)
    return z3.And(n > 0, z3.Not(lps_none(arr, n, f)),
                  s_tf(z3.Select(arr, L)) + FALL(s_pulse(z3.Select(arr, L)), cs_chan(cs), in_eom(h, cs)) > s_tf(z3.Select(arr, n - 1)))


@cls("ramp-of-duration-one")
def _c3(ob, con):
    from pyvc.core import Ref, uf, I
    self = z3.Const("self", Ref)
    return uf("Waveform._duration", Ref, I)(self) == 1


def _ab():
    from pyvc.core import Ref
    return z3.Const("a!c18", Ref), z3.Const("b!c18", Ref)


@cls("differ-in-min_duration")
def _c18a(ob, con):
    from contracts.lib import min_dur
    a, b = _ab()
    return min_dur(a) != min_dur(b)


@cls("differ-in-custom_phase_jump_time")
def _c18b(ob, con):
    from contracts.lib import fget, fnone
    a, b = _ab()
    return z3.Or(fnone("Channel", "custom_phase_jump_time", a) != fnone("Channel", "custom_phase_jump_time", b),
                 z3.And(z3.Not(fnone("Channel", "custom_phase_jump_time", a)), fget("Channel", "custom_phase_jump_time", a) != fget("Channel", "custom_phase_jump_time", b)))


@cls("differ-in-max_duration")
def _c18c(ob, con):
    from contracts.lib import max_dur, max_dur_none
    a, b = _ab()
    return z3.Or(max_dur_none(a) != max_dur_none(b), z3.And(z3.Not(max_dur_none(a)), max_dur(a) != max_dur(b)))
