"""Property -> obligations map.

OWNED: (regex on the clause key, [properties]) -- first match wins; obligations not matched belong to every
property listed in their contract's `props`.
"""
OWNED = [
    # the drift-corrected phase is evaluated at the slot's own start (after rounding): a C15 clause carried by the two schedule writers
    (r"^_Schedule\.make_next_pulse_slot/ensures\.(drift-corrected-phase|keeps-amplitude-and-detuning)", ["C03", "C10", "C07", "C01", "C15"]),
    (r"^_Schedule\.add_pulse/ensures\.(drift-corrected-phase|keeps-amplitude-and-detuning)", ["C01", "C02", "C03", "C07", "C09", "C10", "C15"]),
    (r"Sequence\.(enable_eom_mode|disable_eom_mode|add_eom_pulse)/ensures\.(was-|in-eom-mode-afterwards|still-in-eom-mode)", ["C13", "C15"]),
    (r"Sequence\.(enable_eom_mode|disable_eom_mode|modify_eom_setpoint|add_eom_pulse)/", ["C15"]),
    (r"Sequence\._add/ensures\.(assert:targets-share-one-reference|assert:phase-uses-some-target's-reference|phase-is-programmed-plus-reference|starts-after-latest-phase-shift-of-targets|targets-marked-used|post-phase-shift-applied|BRINV)", ["C07"]),
    (r"Sequence\._add/ensures\.(scheduled-duration-is-validated|accepted-unchanged-if-clock-multiple|within-limits-if-unchanged)", ["C01"]),
    (r"Sequence\._add/ensures\.appends-a-pulse-slot-on-the-same-targets", ["C02"]),
    (r"Sequence\._validate_and_adjust_pulse/ensures\.(phase-is-programmed-plus-reference|post-phase-shift-kept)", ["C07"]),
    (r"Sequence\._validate_and_adjust_pulse/ensures\.", ["C01"]),
    (r"Sequence\._phase_shift/", ["C07"]),
    (r"/exc_safe\.", ["C09"]),
    (r"(Channel\.validate_duration|_ChannelSchedule\.adjust_duration)/ensures\.at_most_max", ["C01"]),
    (r"add_target/ensures\.same-targets-inserts-nothing", ["C10"]),
    (r"ensures\.INV\.retarget-(after-fall|interval)", ["C10"]),
    (r"ensures\.INV\.fixed-retarget-time", ["C10"]),
    (r"make_next_pulse_slot/ensures\.phase-jump-buffer", ["C10"]),
    (r"make_next_pulse_slot/ensures\.(no-conflict|earliest-allowed|no-delay-starts-at-end-or-barrier|no-delay-exact-when-barriers-passed)", ["C03"]),
    (r"make_next_pulse_slot/ensures\.after-phase-barriers", ["C07", "C03"]),
    (r"add_pulse/ensures\.no-conflict", ["C03"]),
    (r"add_pulse/ensures\.after-phase-barriers", ["C07", "C03"]),
    (r"ensures\.within-max-sequence-duration", ["C01"]),
    (r"_check_duration/", ["C01"]),
    (r"ensures\.INV\.(len>=0|first-is-initial-target|kinds|contiguous|monotone|boundaries-nonneg|clock-aligned|pulse-occupies-its-duration|pulses-are-valid|min-duration|targets-change-only-at-target-slots)", ["C02"]),
    (r"ensures\.(append-only|assert:bridge)", ["C02"]),
    # everything else of the two writers stays with the scheduling properties (C15 takes only the rows at the top)
    (r"^_Schedule\.make_next_pulse_slot/", ["C03", "C10", "C07", "C01"]),
    (r"^_Schedule\.add_pulse/", ["C01", "C02", "C03", "C07", "C09", "C10"]),
]

PROPS = {
    "C01": dict(lemmas=["A-mod-of-multiple"], not_decided=["hull of stretched Blackman/Kaiser/Interpolated samples (bounded stand-in)",
                                                         "finiteness of samples: nan / inf do not exist under A-REAL; decided by the bounded stand-in only (non-finite pulses are generated)"], assumptions=[]),
    "C02": dict(lemmas=["A-mod-of-multiple"], not_decided=[], assumptions=["A-NOALIAS list-valued fields (.slots, .eom_blocks) are not aliased between objects"]),
    "C03": dict(lemmas=["L-first-retarget"], relations=["estimate-equals-actual"], not_decided=["fall time of a past pulse is taken in the other channel's current EOM mode or non-EOM mode, whichever is shorter (fall_min)"],
                assumptions=["A-DET make_next_pulse_slot is a deterministic function of the values it reads (used only to turn equal call arguments into estimate == inserted delay)",
                             "A-EOMBW EOM rise time <= channel rise time", "A-DICT-ORDER iteration order of the schedule is unconstrained"]),
    "C07": dict(lemmas=["L-phase-additive"], not_decided=["rotation by phi about z on the emulated qubit (QuTiP ODE)", "EOM drift-corrected adds: phase clauses are stated for drift-free adds"],
                assumptions=["A-PI 3 < pi < 4 (only positivity is used)", "SLM-mask DMM side effect of _add is excluded by precondition (no pending SLM mask DMM)"]),
    "C13": dict(lemmas=[], not_decided=["acceptance direction (mode allows => returns) beyond the guards", "declare_channel / config_slm_mask typestate (bounded stand-in only)"],
                assumptions=[]),
    "C15": dict(lemmas=["L-lpsi-agree", "L-lpsi-extend"], not_decided=["emulated populations under drift correction (QuTiP): only the drift bookkeeping is specified - every correction covers, without gap or overlap, the time "
                                                      "since the last real pulse during which the off-detuning is applied - and proved for enable_eom_mode, modify_eom_setpoint, disable_eom_mode and add_eom_pulse",
                                                      "closest off-detuning option (numpy argmin; bounded stand-in)"],
                assumptions=["A-EOMBW"]),
    "C16": dict(lemmas=[], not_decided=["Blackman / Kaiser / Interpolated numerics, from_max_val, __eq__ vs isclose, finiteness: bounded stand-in (durations 1..40 exhaustive)",
                                        "floating-point range of the phase modulo (outside A-REAL)"], assumptions=["A-NUMPY elementwise array arithmetic, np.ones/arange/clip"]),
    "C18": dict(lemmas=["C18-leaf-rise_time", "C18-leaf-rounding", "C18-leaf-phase_jump_time", "C18-leaf-min_duration", "C18-leaf-max_duration"],
                not_decided=["replay determinism (identical calls on agreeing channels give identical timelines) is argued from the leaves, not an obligation",
                             "EOM-mode channels (strict compares only the EOM bandwidth when not parametrized) and the non-strict clause: bounded stand-in",
                             "switch_register: bounded stand-in"],
                assumptions=["A-MODBW modulation buffers depend on the channel only through its bandwidths"]),
    "C12": dict(lemmas=[], not_decided=["pairwise-distance and radial-distance leaves (numpy pdist/squareform/argwhere/linalg.norm) and the exact culprit lists: bounded stand-in",
                                        "device-aware constructors (max_connectivity, with_automatic_layout) and device construction: bounded stand-in"],
                assumptions=["A-IMMUT register/layout/device properties are pure"]),
    "C06": dict(lemmas=[], not_decided=["_ChannelSchedule.get_samples (slice assignment loops) and SequenceSamples.to_nested_dict: bounded stand-in (independent re-rendering)",
                                        "modulated sampling (FFT)"], assumptions=["A-NUMPY pm.pad", "ChannelSamples.__post_init__ assertions hold for the padded arrays (class invariant)"]),
    "C08": dict(lemmas=[], not_decided=["ParamObj.build cache comparison, Sequence.build replay loop, store/verify_parametrization, MappableRegister.build_register: bounded stand-in (template vs direct construction)"],
                assumptions=["A-NUMPY pm.AbstractArray conversion is a function of (value, dtype)"]),
    "C19": dict(lemmas=[], not_decided=["uniqueness of the sorted permutation, hashing, define_register / build_register / per-qubit weight lookup (np.isclose matching): bounded stand-in on generated layouts"],
                assumptions=["A-NUMPY np.lexsort sorts by its last key first (stable)",
                             "A-NUMPY a[idx] with an integer index array is a function NP_TAKE(a, idx) (rows of a in the order idx); pm.AbstractArray.__getitem__/as_array/copy preserve the value",
                             "A-NUMPY np.array(seq) is a function of the element sequence and its length"]),
    "C17": dict(lemmas=[], level="other",
                ownership=["pulser-core/pulser/devices", "pulser-core/pulser/channels", "pulser-core/pulser/noise_model.py", "pulser-core/pulser/register",
                           "pulser-core/pulser/backend", "pulser-core/pulser/json", "pulser-core/pulser/result.py", "pulser-simulation/pulser_simulation"],
                explanation=("Two parts. (1) Deductive frame obligations, one per function of the anchored packages (pulser.devices, channels, noise_model, register, backend, json, "
                             "pulser_simulation): the function stores nothing into class-level state (cls.x / ClassName.x / type(self).x / setattr on the class), does not mutate or "
                             "store a mutable default argument, and does not rebind or mutate a module-level container. These are decided exactly from the AST of the current tree "
                             "(no solver needed; a violated obligation names the offending line) and hold for all inputs and interleavings: an object can then only share state with "
                             "another through arguments it was explicitly given. (2) Everything else in the property - schema validity, field-by-field round-trips, "
                             "NoiseModel<->SimConfig, active noise types, aliasing through argument objects - is reflective / JSON code outside the VC generator's subset and is "
                             "decided by the bounded stand-in only (generated objects, interleaved constructions); it is labelled bounded and not counted as proved."),
                not_decided=["round-trips, schema validity, NoiseModel<->SimConfig, active noise types, aliasing through shared argument objects: bounded stand-in"],
                assumptions=["A-OWN the ownership pass is syntactic: state reached through self.__class__, vars()/__dict__, globals() or C extensions is not seen"]),
    "C10": dict(lemmas=[], not_decided=["phase-jump clause with phase-drift correction (EOM) is stated for drift-free adds only"], assumptions=[]),
    "C09": dict(only=r"/(exc_safe|frame)\.", lemmas=[], not_decided=["replay determinism as a theorem; draw()"], assumptions=[]),
}
