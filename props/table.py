"""Property -> obligations map.

OWNED: (regex on the clause key, [properties]) -- first match wins; obligations not matched belong to every
property listed in their contract's `props`.
"""
OWNED = [
    (r"Sequence\._add/ensures\.(assert:targets-share-one-reference|assert:phase-uses-some-target's-reference|phase-is-programmed-plus-reference|starts-after-latest-phase-shift-of-targets|targets-marked-used|post-phase-shift-applied|BRINV)", ["C07"]),
    (r"Sequence\._add/ensures\.(scheduled-duration-is-validated|accepted-unchanged-if-clock-multiple|within-limits-if-unchanged)", ["C01"]),
    (r"Sequence\._add/ensures\.appends-a-pulse-slot-on-the-same-targets", ["C02"]),
    (r"Sequence\._validate_and_adjust_pulse/ensures\.(phase-is-programmed-plus-reference|post-phase-shift-kept)", ["C07"]),
    (r"Sequence\._validate_and_adjust_pulse/ensures\.", ["C01"]),
    (r"Sequence\._phase_shift/", ["C07"]),
    (r"/exc_safe\.", ["C09"]),
    (r"(Channel\.validate_duration|_ChannelSchedule\.adjust_duration)/ensures\.at_most_max", ["C01"]),
    (r"add_target/ensures\.same-targets-inserts-nothing", ["C10"]),
    (r"ensures\.INV\.retarget-(after-fall|interval)", ["C10"]),
    (r"ensures\.INV\.fixed-retarget-time", ["C10"]),
    (r"make_next_pulse_slot/ensures\.phase-jump-buffer", ["C10"]),
    (r"make_next_pulse_slot/ensures\.(no-conflict|earliest-allowed|no-delay-starts-at-end-or-barrier|no-delay-exact-when-barriers-passed)", ["C03"]),
    (r"make_next_pulse_slot/ensures\.after-phase-barriers", ["C07", "C03"]),
    (r"add_pulse/ensures\.no-conflict", ["C03"]),
    (r"add_pulse/ensures\.after-phase-barriers", ["C07", "C03"]),
    (r"ensures\.within-max-sequence-duration", ["C01"]),
    (r"_check_duration/", ["C01"]),
    (r"ensures\.INV\.(len>=0|first-is-initial-target|kinds|contiguous|monotone|boundaries-nonneg|clock-aligned|pulse-occupies-its-duration|pulses-are-valid|min-duration|targets-change-only-at-target-slots)", ["C02"]),
    (r"ensures\.(append-only|assert:bridge)", ["C02"]),
]

PROPS = {
    "C01": dict(lemmas=["A-mod-of-multiple"], not_decided=["hull of stretched Blackman/Kaiser/Interpolated samples (bounded stand-in)"], assumptions=[]),
    "C02": dict(lemmas=["A-mod-of-multiple"], not_decided=[], assumptions=["A-NOALIAS list-valued fields (.slots, .eom_blocks) are not aliased between objects"]),
    "C03": dict(lemmas=["L-first-retarget"], relations=["estimate-equals-actual"], not_decided=["fall time of a past pulse is taken in the other channel's current EOM mode or non-EOM mode, whichever is shorter (fall_min)"],
                assumptions=["A-DET make_next_pulse_slot is a deterministic function of the values it reads (used only to turn equal call arguments into estimate == inserted delay)",
                             "A-EOMBW EOM rise time <= channel rise time", "A-DICT-ORDER iteration order of the schedule is unconstrained"]),
    "C07": dict(lemmas=["L-phase-additive"], not_decided=["rotation by phi about z on the emulated qubit (QuTiP ODE)", "EOM drift-corrected adds: phase clauses are stated for drift-free adds"],
                assumptions=["A-PI 3 < pi < 4 (only positivity is used)", "SLM-mask DMM side effect of _add is excluded by precondition (no pending SLM mask DMM)"]),
    "C13": dict(lemmas=[], not_decided=["acceptance direction (mode allows => returns) beyond the guards", "declare_channel / config_slm_mask typestate (bounded stand-in only)"],
                assumptions=[]),
    "C15": dict(lemmas=[], not_decided=["emulated populations under drift correction (QuTiP)", "closest off-detuning option (numpy argmin; bounded stand-in)"],
                assumptions=["A-EOMBW"]),
    "C16": dict(lemmas=[], not_decided=["Blackman / Kaiser / Interpolated numerics, from_max_val, __eq__ vs isclose, finiteness: bounded stand-in (durations 1..40 exhaustive)",
                                        "floating-point range of the phase modulo (outside A-REAL)"], assumptions=["A-NUMPY elementwise array arithmetic, np.ones/arange/clip"]),
    "C18": dict(lemmas=["C18-leaf-rise_time", "C18-leaf-rounding", "C18-leaf-phase_jump_time", "C18-leaf-min_duration", "C18-leaf-max_duration"],
                not_decided=["replay determinism (identical calls on agreeing channels give identical timelines) is argued from the leaves, not an obligation",
                             "EOM-mode channels (strict compares only the EOM bandwidth when not parametrized) and the non-strict clause: bounded stand-in",
                             "switch_register: bounded stand-in"],
                assumptions=["A-MODBW modulation buffers depend on the channel only through its bandwidths"]),
    "C12": dict(lemmas=[], not_decided=["pairwise-distance and radial-distance leaves (numpy pdist/squareform/argwhere/linalg.norm) and the exact culprit lists: bounded stand-in",
                                        "device-aware constructors (max_connectivity, with_automatic_layout) and device construction: bounded stand-in"],
                assumptions=["A-IMMUT register/layout/device properties are pure"]),
    "C10": dict(lemmas=[], not_decided=["phase-jump clause with phase-drift correction (EOM) is stated for drift-free adds only"], assumptions=[]),
    "C09": dict(only=r"/(exc_safe|frame)\.", lemmas=[], not_decided=["replay determinism as a theorem; draw()"], assumptions=[]),
}
