"""Contracts for pulser-core/pulser/pulse.py and the waveform accessors it uses."""
import z3

from pyvc.contracts import Al, Q, contract, inline
from pyvc.core import B, I, Ref, uf
from .lib import EOM_RISE, FALL, RISE, T, fget, fnone, modbw, modbw_none, valid_channel_f, AXIOMS

PF = "pulser-core/pulser/pulse.py"
WF = "pulser-core/pulser/waveforms.py"
EOMF = "pulser-core/pulser/channels/eom.py"

MODBUF_END = uf("MODBUF_END", Ref, Ref, B, I)     # Waveform.modulation_buffers(ch, eom)[1]
MODBUF_START = uf("MODBUF_START", Ref, Ref, B, I)


def Rm(ch, eom):
    return z3.If(eom, EOM_RISE(fget("Channel", "eom_config", ch)), RISE(ch))


inline(PF, "Pulse.duration")
inline(WF, "Waveform.duration")

contract(EOMF, "BaseEOM.rise_time", props=("C10", "C15"),
         params={"self": ("ref", "BaseEOM")}, result="int",
         requires=lambda c: [("bw>0", fget("BaseEOM", "mod_bandwidth", T(c.self)) > 0)],
         ensures=lambda c: [("is_EOM_RISE", T(c.res) == EOM_RISE(T(c.self))), ("nonneg", T(c.res) >= 0)],
         spec_defs=lambda c: [EOM_RISE(T(c.self)) == z3.ToInt(z3.RealVal("0.48") / fget("BaseEOM", "mod_bandwidth", T(c.self)) * 1000)],
         )

contract(WF, "Waveform.modulation_buffers", props=("C03", "C10"), trusted=True,
         note="numpy/FFT: calc_modulation_buffer returns (start, end) with 0 <= start, end <= tr (argwhere over a window of width tr); deterministic in (waveform, channel, eom) by A-IMMUT",
         params={"self": ("ref", "Waveform"), "channel": ("ref", "Channel"), "eom": "bool"}, result=("tuple", "int", "int"),
         requires=lambda c: [("valid_channel", valid_channel_f(T(c.channel))),
                             ("eom-supported", z3.Implies(T(c.eom), z3.Not(fnone("Channel", "eom_config", T(c.channel)))))],
         ensures=lambda c: [
             ("start", z3.And(T(c.res[0]) == MODBUF_START(T(c.self), T(c.channel), T(c.eom)), T(c.res[0]) >= 0, T(c.res[0]) <= Rm(T(c.channel), T(c.eom)))),
             ("end", z3.And(T(c.res[1]) == MODBUF_END(T(c.self), T(c.channel), T(c.eom)), T(c.res[1]) >= 0, T(c.res[1]) <= Rm(T(c.channel), T(c.eom)))),
             ("no-bandwidth", z3.Implies(modbw_none(T(c.channel)), z3.And(T(c.res[0]) == 0, T(c.res[1]) == 0))),
         ])


def fall_def(p, ch, e):
    amp, det = uf("Pulse.amplitude", Ref, Ref)(p), uf("Pulse.detuning", Ref, Ref)(p)
    a, d = MODBUF_END(amp, ch, e), MODBUF_END(det, ch, e)
    return Rm(ch, e) + z3.If(a >= d, a, d)


contract(PF, "Pulse.fall_time", props=("C02", "C03", "C10", "C18"),
         params={"self": ("ref", "Pulse"), "channel": ("ref", "Channel"), "in_eom_mode": "bool"}, result="int",
         requires=lambda c: [("valid_channel", valid_channel_f(T(c.channel))),
                             ("eom-supported", z3.Implies(T(c.in_eom_mode), z3.Not(fnone("Channel", "eom_config", T(c.channel)))))],
         spec_defs=lambda c: [FALL(T(c.self), T(c.channel), T(c.in_eom_mode)) == fall_def(T(c.self), T(c.channel), T(c.in_eom_mode))],
         ensures=lambda c: [
             ("is_FALL", T(c.res) == FALL(T(c.self), T(c.channel), T(c.in_eom_mode))),
             ("at-least-rise", T(c.res) >= Rm(T(c.channel), T(c.in_eom_mode))),
             ("at-most-twice-rise", T(c.res) <= 2 * Rm(T(c.channel), T(c.in_eom_mode))),
             ("at-most-twice-channel-rise", T(c.res) <= 2 * RISE(T(c.channel))),
             ("nonneg", T(c.res) >= 0),
         ])
