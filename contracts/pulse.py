"""Contracts for pulser-core/pulser/pulse.py and the waveform accessors it uses."""
import z3

from pyvc.contracts import Al, Q, contract, inline
from pyvc.core import B, I, Ref, uf
from .lib import EOM_RISE, FALL, RISE, T, fget, fnone, modbw, modbw_none, valid_channel_f, AXIOMS, PI

PF = "pulser-core/pulser/pulse.py"
WF = "pulser-core/pulser/waveforms.py"
EOMF = "pulser-core/pulser/channels/eom.py"

MODBUF_END = uf("MODBUF_END", Ref, Ref, B, I)     # Waveform.modulation_buffers(ch, eom)[1]
MODBUF_START = uf("MODBUF_START", Ref, Ref, B, I)


def Rm(ch, eom):
    return z3.If(eom, EOM_RISE(fget("Channel", "eom_config", ch)), RISE(ch))


inline(PF, "Pulse.duration")
from .lib import WDUR  # noqa: E402
contract(WF, "Waveform.duration", props=("C02", "C16"), trusted=True,
         note="abstract property: this is the interface contract; each concrete subclass's duration is verified against it (C16 set)",
         params={"self": ("ref", "Waveform")}, result="int",
         ensures=lambda c: [("is_WDUR", T(c.res) == WDUR(T(c.self))), ("positive", T(c.res) >= 1)])

contract(EOMF, "BaseEOM.rise_time", props=("C10", "C15"),
         params={"self": ("ref", "BaseEOM")}, result="int",
         requires=lambda c: [("bw>0", fget("BaseEOM", "mod_bandwidth", T(c.self)) > 0)],
         ensures=lambda c: [("is_EOM_RISE", T(c.res) == EOM_RISE(T(c.self))), ("nonneg", T(c.res) >= 0)],
         spec_defs=lambda c: [EOM_RISE(T(c.self)) == z3.ToInt(z3.RealVal("0.48") / fget("BaseEOM", "mod_bandwidth", T(c.self)) * 1000)],
         )

contract(WF, "Waveform.modulation_buffers", props=("C03", "C10"), trusted=True,
         note="numpy/FFT: calc_modulation_buffer returns (start, end) with 0 <= start, end <= tr (argwhere over a window of width tr); deterministic in (waveform, channel, eom) by A-IMMUT",
         params={"self": ("ref", "Waveform"), "channel": ("ref", "Channel"), "eom": "bool"}, result=("tuple", "int", "int"),
         requires=lambda c: [("valid_channel", valid_channel_f(T(c.channel))),
                             ("eom-supported", z3.Implies(T(c.eom), z3.Not(fnone("Channel", "eom_config", T(c.channel)))))],
         ensures=lambda c: [
             ("start", z3.And(T(c.res[0]) == MODBUF_START(T(c.self), T(c.channel), T(c.eom)), T(c.res[0]) >= 0, T(c.res[0]) <= Rm(T(c.channel), T(c.eom)))),
             ("end", z3.And(T(c.res[1]) == MODBUF_END(T(c.self), T(c.channel), T(c.eom)), T(c.res[1]) >= 0, T(c.res[1]) <= Rm(T(c.channel), T(c.eom)))),
             ("no-bandwidth", z3.Implies(modbw_none(T(c.channel)), z3.And(T(c.res[0]) == 0, T(c.res[1]) == 0))),
         ])


def fall_def(p, ch, e):
    amp, det = uf("Pulse.amplitude", Ref, Ref)(p), uf("Pulse.detuning", Ref, Ref)(p)
    a, d = MODBUF_END(amp, ch, e), MODBUF_END(det, ch, e)
    return Rm(ch, e) + z3.If(a >= d, a, d)


contract(PF, "Pulse.fall_time", props=("C02", "C03", "C10", "C18"),
         params={"self": ("ref", "Pulse"), "channel": ("ref", "Channel"), "in_eom_mode": "bool"}, result="int",
         requires=lambda c: [("valid_channel", valid_channel_f(T(c.channel))),
                             ("eom-supported", z3.Implies(T(c.in_eom_mode), z3.Not(fnone("Channel", "eom_config", T(c.channel)))))],
         spec_defs=lambda c: [FALL(T(c.self), T(c.channel), T(c.in_eom_mode)) == fall_def(T(c.self), T(c.channel), T(c.in_eom_mode))],
         ensures=lambda c: [
             ("is_FALL", T(c.res) == FALL(T(c.self), T(c.channel), T(c.in_eom_mode))),
             ("at-least-rise", T(c.res) >= Rm(T(c.channel), T(c.in_eom_mode))),
             ("at-most-twice-rise", T(c.res) <= 2 * Rm(T(c.channel), T(c.in_eom_mode))),
             ("at-most-twice-channel-rise", T(c.res) <= 2 * RISE(T(c.channel))),
             ("nonneg", T(c.res) >= 0),
         ])

from .lib import IS_DETUNED_DELAY, p_duration, p_phase  # noqa: E402
from pyvc.core import R  # noqa: E402

CONST_AMP = uf("CONST_AMP", Ref, R)    # value of a constant pulse's amplitude
CONST_DET = uf("CONST_DET", Ref, R)
IS_CONST = uf("IS_CONST", Ref, B)      # both waveforms are ConstantWaveform

def _vp(p):
    return valid_pulse(p)


def _isinst(r, cls):
    from pyvc.core import isinstance_term
    return isinstance_term(r, cls)


from pyvc.core import FuncRef as _FR  # noqa: E402
_PULSE_CLS = _FR("Pulse", "class")


def const_defs(p):
    from pyvc.core import isinstance_term
    cval = uf("ConstantWaveform._value", Ref, R)
    return z3.And(IS_CONST(p) == z3.And(isinstance_term(P_AMP(p), "ConstantWaveform"), isinstance_term(P_DET(p), "ConstantWaveform")),
                  z3.Implies(IS_CONST(p), z3.And(CONST_AMP(p) == cval(P_AMP(p)), CONST_DET(p) == cval(P_DET(p)))))


def idd_def(p):
    """IS_DETUNED_DELAY(p): both waveforms constant and the amplitude's value is 0 (what is_detuned_delay computes)"""
    from pyvc.core import isinstance_term
    cval = uf("ConstantWaveform._value", Ref, R)
    return IS_DETUNED_DELAY(p) == z3.And(isinstance_term(P_AMP(p), "ConstantWaveform"), cval(P_AMP(p)) == 0, isinstance_term(P_DET(p), "ConstantWaveform"))


contract(PF, "Pulse.ConstantPulse", props=("C02", "C15", "C16"),
         spec_defs=lambda c: [],
         params={"cls": ("const", _PULSE_CLS), "duration": "int", "amplitude": "real", "detuning": "real", "phase": "real", "post_phase_shift": "real"},
         result=("ref", "Pulse"),
         requires=lambda c: [],
         raises={"ValueError": lambda c: z3.Or(T(c.duration) < 1, T(c.amplitude) < 0)},
         ensures=lambda c: [
             ("valid", _vp(T(c.res))),
             ("is-a-Pulse-object", _isinst(T(c.res), "Pulse")),
             ("duration", p_duration(T(c.res)) == T(c.duration)),
             ("const", z3.Implies(const_defs(T(c.res)), z3.And(IS_CONST(T(c.res)), CONST_AMP(T(c.res)) == T(c.amplitude), CONST_DET(T(c.res)) == T(c.detuning)))),
             ("detuned-delay-iff-zero-amp", z3.Implies(idd_def(T(c.res)), IS_DETUNED_DELAY(T(c.res)) == (T(c.amplitude) == 0))),
             ("phase-in-range", z3.And(p_phase(T(c.res)) >= 0, p_phase(T(c.res)) < 2 * PI)),
             ("phase-and-post-phase-shift-mod-2pi", z3.And(mod2pi(T(c.phase), p_phase(T(c.res))), mod2pi(T(c.post_phase_shift), P_PPS(T(c.res))))),
             ("phase-unchanged-in-range", z3.Implies(z3.And(T(c.phase) >= 0, T(c.phase) < 2 * PI), p_phase(T(c.res)) == T(c.phase))),
         ])

P_AMP = lambda p: uf("Pulse.amplitude", Ref, Ref)(p)
P_DET = lambda p: uf("Pulse.detuning", Ref, Ref)(p)
P_PPS = lambda p: uf("Pulse.post_phase_shift", Ref, R)(p)


NEGAMP = uf("NEGAMP", Ref, B)   # some sample of the waveform is negative


def valid_pulse(p):
    """class invariant of Pulse objects (postcondition of Pulse.__init__)."""
    return z3.And(WDUR(P_AMP(p)) == WDUR(P_DET(p)), z3.Not(NEGAMP(P_AMP(p))), WDUR(P_AMP(p)) >= 1,
                  p_phase(p) >= 0, p_phase(p) < 2 * PI)


def mod2pi(x, r):
    """r == x mod 2*PI, in the witnessed form shared with _PhaseTracker._format"""
    from .lib import fmt
    return z3.And(r == fmt(x), r >= 0, r < 2 * PI)


def negamp_def(w):
    """NEGAMP(w): some sample of w is negative"""
    from .limits import samp
    i = z3.Int("i!na")
    return NEGAMP(w) == z3.Exists([i], z3.And(0 <= i, i < WDUR(w), samp(w, i) < 0))


contract(PF, "Pulse.__init__", props=("C01", "C07", "C16"),
         spec_defs=lambda c: [negamp_def(T(c.amplitude))],
         params={"self": ("ref", "Pulse"), "amplitude": ("ref", "Waveform"), "detuning": ("ref", "Waveform"), "phase": "real", "post_phase_shift": "real"},
         result=None,
         requires=lambda c: [("waveforms-constructed", z3.And(WDUR(T(c.amplitude)) >= 1, WDUR(T(c.detuning)) >= 1))],
         raises={"ValueError": lambda c: z3.Or(WDUR(T(c.amplitude)) != WDUR(T(c.detuning)), NEGAMP(T(c.amplitude)))},
         ensures=lambda c: [
             ("valid", valid_pulse(T(c.self))),
             ("waveforms", z3.And(P_AMP(T(c.self)) == T(c.amplitude), P_DET(T(c.self)) == T(c.detuning))),
             ("equal-durations", WDUR(T(c.amplitude)) == WDUR(T(c.detuning))),
             ("phase-mod-2pi", mod2pi(T(c.phase), p_phase(T(c.self)))),
             ("post-phase-shift-mod-2pi", mod2pi(T(c.post_phase_shift), P_PPS(T(c.self)))),
         ])
# (_PhaseDriftParams.calc_phase_drift has its own contract in contracts/eom_seq.py: result == DRIFT(rate, tf - ti))


# definitions of the pulse-level spec functions (conservative: each is an explicit definition)
from .lib import axiom  # noqa: E402
_pd = z3.Const("p!pd", Ref)
axiom("P-IDD-DEF", z3.ForAll([_pd], idd_def(_pd), patterns=[IS_DETUNED_DELAY(_pd)]),
      "definition of the spec function IS_DETUNED_DELAY; _ChannelSchedule.is_detuned_delay is verified against it")
axiom("P-CONST-DEF", z3.ForAll([_pd], const_defs(_pd), patterns=[IS_CONST(_pd)]), "definition of IS_CONST / CONST_AMP / CONST_DET")
