"""C12: a device accepts exactly the registers / layouts that fit (decision logic; geometry leaves are assumed contracts)."""
import z3

from pyvc.contracts import Q, contract, inline
from pyvc.core import B, I, R, Ref, isinstance_term, uf
from .lib import T, fget, fnone

DV = "pulser-core/pulser/devices/_device_datacls.py"

# abstract geometry predicates (what the numpy leaves decide); their concrete meaning is checked by the bounded stand-in
DIST_OK = uf("DIST_OK", Ref, Ref, B)        # (device, coords) all pairs at least min_atom_distance apart (and distinct)
RADIUS_OK = uf("RADIUS_OK", Ref, Ref, B)    # (device, coords) all within max_radial_distance
NCOORDS = uf("NCOORDS", Ref, I)             # number of coordinates in a mapping
OPT_ATOMNUM = uf("OPT_ATOMNUM", Ref, B)     # "max_atom_num" in device._optional_parameters
OPT_RADIUS = uf("OPT_RADIUS", Ref, B)       # "max_radial_distance" in device._optional_parameters


def d(f, dev):
    return fget("BaseDevice", f, dev)


def dn(f, dev):
    return fnone("BaseDevice", f, dev)


def atom_number_checked(dev, kind_atoms):
    return z3.And(kind_atoms, z3.Not(z3.And(OPT_ATOMNUM(dev), dn("max_atom_num", dev))))


def radius_checked(dev):
    return z3.Not(z3.And(OPT_RADIUS(dev), dn("max_radial_distance", dev)))


def coords_ok(dev, coords, kind_atoms):
    return z3.And(z3.Implies(atom_number_checked(dev, kind_atoms), NCOORDS(coords) <= d("max_atom_num", dev)),
                  DIST_OK(dev, coords), z3.Implies(radius_checked(dev), RADIUS_OK(dev, coords)))


contract(DV, "BaseDevice._validate_coords", props=("C12",), trusted=True,
         note="builds id / coordinate lists from a mapping (list(map(...))) and calls the three leaf validators; the numpy leaves (_validate_atom_distance: pdist/squareform/argwhere, "
              "_validate_radial_distance: linalg.norm/where) are outside the subset. Interface contract: accepts iff the checks that apply hold; their concrete meaning and the exact culprit lists are decided by the bounded stand-in",
         params={"self": ("ref", "BaseDevice"), "coords_dict": ("ref", "Obj"), "kind": "str"},
         raises={"ValueError": lambda c: z3.Not(coords_ok(T(c.self), T(c.coords_dict), T(c.kind) == STR("atoms")))},
         ensures=lambda c: [("all-applicable-checks-hold", coords_ok(T(c.self), T(c.coords_dict), T(c.kind) == STR("atoms")))])


def STR(s):
    from pyvc.core import str_const
    return str_const(s)


def layout_ok(dev, lay):
    L = lambda f: uf("RegisterLayout." + f, Ref, I)(lay)
    return z3.And(L("dimensionality") <= d("dimensions", dev), L("number_of_traps") >= d("min_layout_traps", dev),
                  z3.Or(dn("max_layout_traps", dev), L("number_of_traps") <= d("max_layout_traps", dev)),
                  coords_ok(dev, uf("RegisterLayout.traps_dict", Ref, Ref)(lay), z3.BoolVal(False)))


contract(DV, "BaseDevice.validate_layout", props=("C12",),
         params={"self": ("ref", "BaseDevice"), "layout": ("ref", "RegisterLayout")},
         raises={"ValueError": lambda c: z3.Not(layout_ok(T(c.self), T(c.layout)))},
         ensures=lambda c: [("layout-fits", layout_ok(T(c.self), T(c.layout)))])


def trunc_real(x):
    fl = z3.ToInt(x)
    return z3.If(x >= 0, fl, z3.If(z3.ToReal(fl) == x, fl, fl + 1))


def filling_ok(dev, nq, lay):
    return nq <= trunc_real(z3.ToReal(uf("RegisterLayout.number_of_traps", Ref, I)(lay)) * d("max_layout_filling", dev))


contract(DV, "BaseDevice.validate_layout_filling", props=("C12",),
         params={"self": ("ref", "BaseDevice"), "register": ("ref", "BaseRegister")},
         raises={"TypeError": lambda c: fnone("BaseRegister", "layout", T(c.register)),
                 "ValueError": lambda c: z3.And(z3.Not(fnone("BaseRegister", "layout", T(c.register))),
                                                z3.Not(filling_ok(T(c.self), uf("BaseRegister.qubit_ids.len", Ref, I)(T(c.register)), fget("BaseRegister", "layout", T(c.register)))))},
         ensures=lambda c: [("filling-within-maximum", filling_ok(T(c.self), uf("BaseRegister.qubit_ids.len", Ref, I)(T(c.register)), fget("BaseRegister", "layout", T(c.register))))])

contract(DV, "BaseDevice._validate_atom_number", props=("C12",),
         params={"self": ("ref", "BaseDevice"), "coords": ("list", "real")},
         requires=lambda c: [("limit-defined", z3.Not(dn("max_atom_num", T(c.self))))],
         raises={"ValueError": lambda c: c.coords.n > d("max_atom_num", T(c.self))},
         ensures=lambda c: [("at-most-max-atoms", c.coords.n <= d("max_atom_num", T(c.self)))])


def register_ok(dev, reg):
    lay_none, lay = fnone("BaseRegister", "layout", reg), fget("BaseRegister", "layout", reg)
    return z3.And(uf("BaseRegister.dimensionality", Ref, I)(reg) <= d("dimensions", dev),
                  coords_ok(dev, uf("BaseRegister.qubits", Ref, Ref)(reg), z3.BoolVal(True)),
                  z3.Or(lay_none, z3.And(layout_ok(dev, lay), filling_ok(dev, uf("BaseRegister.qubit_ids.len", Ref, I)(reg), lay))))


contract(DV, "BaseDevice.validate_register", props=("C12",),
         params={"self": ("ref", "BaseDevice"), "register": ("ref", "BaseRegister")},
         raises={"ValueError": lambda c: z3.Not(register_ok(T(c.self), T(c.register)))},
         ensures=lambda c: [("accepted-iff-it-fits", register_ok(T(c.self), T(c.register)))])
