"""C18: what a strict device switch compares, and which timing leaves depend only on that."""
import z3

from pyvc.contracts import Q, contract, inline, lemma
from pyvc.core import B, I, PStr, R, Ref, dyn_class, uf
from pyvc.models import DECL_DOM, DECL_MAP
from .lib import EOM_RISE, FALL, LOCAL, PJT, RISE, T, clock, fget, fnone, min_dur, max_dur, max_dur_none, modbw, modbw_none, valid_channel_f, axiom
from .channels import EOMBUF, VDUR, eom_buf_def, pjt_def, rise_def, vdur_def
from .sequence import building

SD = "pulser-core/pulser/sequence/helpers/_switch_device.py"


def opt_eq(cls, f, a, b):
    return z3.And(fnone(cls, f, a) == fnone(cls, f, b), z3.Or(fnone(cls, f, a), fget(cls, f, a) == fget(cls, f, b)))


def needs_retarget_check(ch):
    return z3.And(fget("Channel", "addressing", ch) == LOCAL, fget("Channel", "fixed_retarget_t", ch) < fget("Channel", "min_retarget_interval", ch))


def agree(a, b):
    """what check_channels_match(..., strict=True) == ('', '') establishes for a channel that is not used in EOM mode"""
    return z3.And(dyn_class(a) == dyn_class(b), fget("Channel", "basis", a) == fget("Channel", "basis", b),
                  fget("Channel", "addressing", a) == fget("Channel", "addressing", b),
                  opt_eq("Channel", "mod_bandwidth", a, b), opt_eq("Channel", "fixed_retarget_t", a, b), clock(a) == clock(b),
                  z3.Implies(z3.Or(needs_retarget_check(a), needs_retarget_check(b)), opt_eq("Channel", "min_retarget_interval", a, b)))


def ccm_old(c):
    return z3.Select(DECL_MAP(uf("DECL_OF", Ref, Ref)(T(c.seq))), T(c.old_ch_name))


def OLD(c):
    """the old channel object: declared_channels[name] of a built sequence is the schedule's channel object"""
    from .lib import cs_chan, sch_get
    return cs_chan(sch_get(c.old, uf("Sequence._schedule", Ref, Ref)(T(c.seq)), T(c.old_ch_name)))


def ccm_requires(c):
    from .lib import cs_chan, sch_get, sch_has
    sch = uf("Sequence._schedule", Ref, Ref)(T(c.seq))
    return [("built", building(c.old, T(c.seq))),
            ("declared", sch_has(c.old, sch, T(c.old_ch_name))),
            ("valid-channels", z3.And(valid_channel_f(T(c.new_ch_obj)), valid_channel_f(OLD(c)))),
            ("eom-channels-have-an-eom", z3.Implies(in_list(c.active_eom_channels, T(c.old_ch_name)), z3.Not(fnone("Channel", "eom_config", OLD(c)))))]


contract(SD, "switch_device.<locals>.check_channels_match", props=("C18",),
         params={"old_ch_name": "str", "new_ch_obj": ("ref", "Channel"), "active_eom_channels": ("list", "str"), "strict": "bool"},
         closure={"seq": ("ref", "Sequence"), "check_retarget": ("nested", "switch_device.<locals>.check_retarget")},
         requires=ccm_requires,
         result=None,
         ensures=lambda c: [("strict-match-compares-the-timing-fields",
                             z3.Implies(z3.And(T(c.strict), z3.BoolVal(tuple(c.res) == ("", "")), z3.Not(in_list(c.active_eom_channels, T(c.old_ch_name)))),
                                        agree(OLD(c), T(c.new_ch_obj)))),
                            ("match-implies-same-type-basis-addressing", z3.Implies(z3.BoolVal(tuple(c.res) == ("", "")), z3.And(
                                dyn_class(OLD(c)) == dyn_class(T(c.new_ch_obj)),
                                fget("Channel", "basis", OLD(c)) == fget("Channel", "basis", T(c.new_ch_obj)),
                                fget("Channel", "addressing", OLD(c)) == fget("Channel", "addressing", T(c.new_ch_obj)))))],
         may_raise=("AssertionError",))


def in_list(sv, x):
    j = z3.Int("j!il")
    return z3.Exists([j], z3.And(0 <= j, j < sv.n, z3.Select(sv.arr, j) == x))


# ---- timing leaves as functions of the compared fields (pure lemmas over the spec-function definitions) -----------
def _two():
    a, b = z3.Const("a!c18", Ref), z3.Const("b!c18", Ref)
    hyps = [("valid-a", valid_channel_f(a)), ("valid-b", valid_channel_f(b)), ("agree", agree(a, b))]
    return a, b, hyps


def _leaf(name, defs, goal, text):
    def build():
        a, b, hyps = _two()
        return hyps + [(f"def{i}", d) for i, d in enumerate(defs(a, b))], Q([I], lambda k: (z3.BoolVal(True), goal(a, b))), lambda k: []
    lemma(name, build, text)


_leaf("C18-leaf-rise_time", lambda a, b: [RISE(a) == rise_def(a), RISE(b) == rise_def(b)], lambda a, b: RISE(a) == RISE(b),
      "rise_time depends only on mod_bandwidth, which a strict match compares")
_leaf("C18-leaf-rounding", lambda a, b: [], lambda a, b: (lambda d: VDUR(clock(a), d) == VDUR(clock(b), d))(z3.Int("d!c18")),
      "the clock rounding of a duration depends only on clock_period")
_leaf("C18-leaf-phase_jump_time", lambda a, b: [RISE(a) == rise_def(a), RISE(b) == rise_def(b), PJT(a) == pjt_def(a), PJT(b) == pjt_def(b)], lambda a, b: PJT(a) == PJT(b),
      "phase_jump_time: 2*rise_time unless custom_phase_jump_time is set (which a strict match does NOT compare)")
_leaf("C18-leaf-min_duration", lambda a, b: [], lambda a, b: min_dur(a) == min_dur(b),
      "delays are lengthened to min_duration and shorter instructions refused; a strict match does NOT compare min_duration")
_leaf("C18-leaf-max_duration", lambda a, b: [], lambda a, b: z3.And(max_dur_none(a) == max_dur_none(b), z3.Or(max_dur_none(a), max_dur(a) == max_dur(b))),
      "instructions longer than max_duration are refused; a strict match does NOT compare max_duration (it can only make the switch raise, never change the timeline)")
