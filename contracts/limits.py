"""C01: amplitude / detuning limits (Channel.validate_pulse, DMM.validate_pulse) over numpy axioms (A-NUMPY)."""
import z3

from pyvc.contracts import Q, contract, inline
from pyvc.core import B, I, R, Ref, uf
from pyvc.models import AVG, ROUND6, SUM
from .lib import T, WDUR, axiom, fget, fnone, valid_channel_f
from .pulse import P_AMP, P_DET, valid_pulse

BC = "pulser-core/pulser/channels/base_channel.py"
DM = "pulser-core/pulser/channels/dmm.py"
WF = "pulser-core/pulser/waveforms.py"

WSAMP = uf("WSAMP", Ref, z3.ArraySort(I, R))     # the samples of a waveform (A-IMMUT: a function of the object)


def samp(w, i):
    return z3.Select(WSAMP(w), i)


contract(WF, "Waveform.samples", props=("C01", "C06", "C16"), trusted=True,
         note="returns a copy of the cached abstract property _samples; interface contract: `duration` samples, a function of the waveform (A-IMMUT)",
         params={"self": ("ref", "Waveform")}, result=("list", "real"),
         ensures=lambda c: [("length-is-duration", c.res.n == WDUR(T(c.self))), ("is-WSAMP", c.res.arr == WSAMP(T(c.self)))])

_x = z3.Real("x!r6")
_y = z3.Real("y!r6")
axiom("A-NUMPY-round6", z3.And(
    z3.ForAll([_x], z3.And(ROUND6(_x) - _x <= z3.RealVal("0.0000005"), _x - ROUND6(_x) <= z3.RealVal("0.0000005")), patterns=[ROUND6(_x)]),
    z3.ForAll([_x, _y], z3.Implies(_x <= _y, ROUND6(_x) <= ROUND6(_y)), patterns=[z3.MultiPattern(ROUND6(_x), ROUND6(_y))]),
    ROUND6(z3.RealVal(0)) == 0),
    "np.round(x, 6): within 5e-7 of x, monotone, exact at 0")


def amp_ok(p, ch):
    i = z3.Int("i!ao")
    a = P_AMP(p)
    return z3.Or(fnone("Channel", "max_amp", ch), z3.ForAll([i], z3.Implies(z3.And(0 <= i, i < WDUR(a)), samp(a, i) <= fget("Channel", "max_amp", ch)), patterns=[samp(a, i)]))


def absr(x):
    return z3.If(x >= 0, x, -x)


def det_ok(p, ch):
    i = z3.Int("i!do")
    d = P_DET(p)
    return z3.Or(fnone("Channel", "max_abs_detuning", ch),
                 z3.ForAll([i], z3.Implies(z3.And(0 <= i, i < WDUR(d)), ROUND6(absr(samp(d, i))) <= fget("Channel", "max_abs_detuning", ch)), patterns=[samp(d, i)]))


def avg_ok(p, ch):
    a = P_AMP(p)
    av = AVG(WSAMP(a), WDUR(a))
    return z3.Not(z3.And(0 < av, av < fget("Channel", "min_avg_amp", ch)))


def LIMITS(p, ch):
    return z3.And(amp_ok(p, ch), det_ok(p, ch), avg_ok(p, ch))


contract(BC, "Channel.validate_pulse", props=("C01",),
         params={"self": ("ref", "Channel"), "pulse": ("ref", "Pulse")},
         requires=lambda c: [("valid_channel", valid_channel_f(T(c.self))), ("valid-pulse", valid_pulse(T(c.pulse)))],
         ensures=lambda c: [("amplitude-within-max", amp_ok(T(c.pulse), T(c.self))),
                            ("detuning-within-max", det_ok(T(c.pulse), T(c.self))),
                            ("average-amplitude-not-below-min", avg_ok(T(c.pulse), T(c.self)))],
         raises={"ValueError": lambda c: z3.Not(LIMITS(T(c.pulse), T(c.self)))},
         )

# ---- DMM -----------------------------------------------------------------------
W_LEN = lambda m: uf("WeightMap.weights.len", Ref, I)(m)
W_ARR = lambda m: uf("WeightMap.weights.at", Ref, z3.ArraySort(I, R))(m)


def valid_map(m):
    j = z3.Int("j!vm")
    return z3.And(W_LEN(m) >= 1, z3.ForAll([j], z3.Implies(z3.And(0 <= j, j < W_LEN(m)), z3.And(z3.Select(W_ARR(m), j) >= 0, z3.Select(W_ARR(m), j) <= 1)),
                                           patterns=[z3.Select(W_ARR(m), j)]))


def dmm_ok(p, dmm, m):
    i, j = z3.Int("i!dm"), z3.Int("j!dm")
    d = P_DET(p)
    r = lambda ii: ROUND6(samp(d, ii))
    inr = z3.And(0 <= i, i < WDUR(d))
    bn, b = fnone("DMM", "bottom_detuning", dmm), fget("DMM", "bottom_detuning", dmm)
    tn, t = fnone("DMM", "total_bottom_detuning", dmm), fget("DMM", "total_bottom_detuning", dmm)
    return [
        ("never-positive", z3.ForAll([i], z3.Implies(inr, r(i) <= 0), patterns=[samp(d, i)])),
        ("per-atom-bottom", z3.Or(bn, z3.ForAll([i, j], z3.Implies(z3.And(inr, 0 <= j, j < W_LEN(m)), z3.Select(W_ARR(m), j) * r(i) >= b),
                                                patterns=[z3.MultiPattern(samp(d, i), z3.Select(W_ARR(m), j))]))),
        ("total-bottom", z3.Or(tn, z3.ForAll([i], z3.Implies(inr, SUM(W_ARR(m), W_LEN(m)) * r(i) >= t), patterns=[samp(d, i)]))),
    ]


contract(DM, "DMM.validate_pulse", props=("C01",),
         params={"self": ("ref", "DMM"), "pulse": ("ref", "Pulse"), "detuning_map": ("ref", "WeightMap")},
         requires=lambda c: [("valid_channel", valid_channel_f(T(c.self))), ("valid-pulse", valid_pulse(T(c.pulse))), ("valid-map", valid_map(T(c.detuning_map))),
                             ("sum-nonneg", SUM(W_ARR(T(c.detuning_map)), W_LEN(T(c.detuning_map))) >= 0)],
         ensures=lambda c: [("amplitude-within-max", amp_ok(T(c.pulse), T(c.self))),
                            ("average-amplitude-not-below-min", avg_ok(T(c.pulse), T(c.self)))] + dmm_ok(T(c.pulse), T(c.self), T(c.detuning_map)),
         raises={"ValueError": ("only-if", lambda c: z3.BoolVal(True))},
         )
