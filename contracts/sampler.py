"""C06: padding of channel samples (ChannelSamples.extend_duration)."""
import z3

from pyvc.contracts import Q, contract
from pyvc.core import B, I, R, Ref, uf
from pyvc.models import MODELS
from .lib import T, eb_det_off

SM = "pulser-core/pulser/sampler/samples.py"


def A(f, o):
    return uf(f"ChannelSamples.{f}.len", Ref, I)(o), uf(f"ChannelSamples.{f}.at", Ref, z3.ArraySort(I, R))(o)


def DUR(o):
    return uf("ChannelSamples.duration", Ref, I)(o)


def cs_inv(o):
    """class invariant of ChannelSamples (its __post_init__): equal lengths, duration = len(amp)"""
    (na, _), (nd, _), (np_, _) = A("amp", o), A("det", o), A("phase", o)
    cn, cl = uf("ChannelSamples._centered_phase?", Ref, B)(o), uf("ChannelSamples._centered_phase.len", Ref, I)(o)
    return z3.And(na >= 0, na == nd, nd == np_, DUR(o) == na, z3.Or(cn, cl == na))


def _hook(ip, r, st):
    # dataclasses.replace re-runs __post_init__, which sets duration = len(amp)
    st.assume(DUR(r) == uf("ChannelSamples.amp.len", Ref, I)(r))


MODELS["replace:ChannelSamples"] = _hook


def open_block(h, o):
    n = uf("ChannelSamples.eom_blocks.len", Ref, I)(o)
    last = z3.Select(uf("ChannelSamples.eom_blocks.at", Ref, z3.ArraySort(I, Ref))(o), n - 1)
    return z3.And(n > 0, h.read("_EOMSettings.tf?", last)), last


def ext_ensures(c):
    o, r = T(c.self), T(c.res)
    n, new = DUR(o), T(c.new_duration)
    is_open, last = open_block(c.old, o)
    j = z3.Int("j!ext")
    out = [("new-duration", z3.And(DUR(r) == new, cs_inv(r)))]
    for f, fill in (("amp", z3.RealVal(0)), ("det", z3.If(is_open, eb_det_off(last), z3.RealVal(0))),
                    ("phase", z3.If(n > 0, z3.Select(A("phase", o)[1], n - 1), z3.RealVal(0)))):
        (_, a0), (n1, a1) = A(f, o), A(f, r)
        out.append((f"{f}-kept", z3.ForAll([j], z3.Implies(z3.And(0 <= j, j < n), z3.Select(a1, j) == z3.Select(a0, j)))))
        out.append((f"{f}-padded", z3.ForAll([j], z3.Implies(z3.And(n <= j, j < new), z3.Select(a1, j) == fill))))
        out.append((f"{f}-length", n1 == new))
    return out


contract(SM, "ChannelSamples.extend_duration", props=("C06",),
         params={"self": ("ref", "ChannelSamples"), "new_duration": "int"}, result=("ref", "ChannelSamples"),
         requires=lambda c: [("class-invariant", cs_inv(T(c.self))), ("eom-blocks", uf("ChannelSamples.eom_blocks.len", Ref, I)(T(c.self)) >= 0)],
         raises={"ValueError": lambda c: T(c.new_duration) < DUR(T(c.self))},
         ensures=ext_ensures)
