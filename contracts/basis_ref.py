"""Contracts for pulser-core/pulser/sequence/_basis_ref.py (C07)."""
import z3

from pyvc.contracts import LoopSpec, Q, contract, inline
from pyvc.core import I, R, Ref, uf
from .lib import PI, T

BR = "pulser-core/pulser/sequence/_basis_ref.py"
TIMES, PHASES = "_PhaseTracker._times", "_PhaseTracker._phases"


def t_len(h, pt):
    return h.read(TIMES + ".len", pt)


def t_at(h, pt, k):
    return z3.Select(h.read(TIMES + ".at", pt), k)


def p_len(h, pt):
    return h.read(PHASES + ".len", pt)


def p_at(h, pt, k):
    return z3.Select(h.read(PHASES + ".at", pt), k)


def PTINV(h, pt, split=None):
    """representation invariant of a phase tracker"""
    n = t_len(h, pt)
    sp = split or []
    return [
        ("same-length", z3.And(n == p_len(h, pt), n >= 1)),
        ("starts-at-zero", t_at(h, pt, 0) == 0),
        ("times-strictly-increasing", Q([I, I], lambda b, a: (z3.And(0 <= a, a < b, b < n), t_at(h, pt, a) < t_at(h, pt, b)),
                                        pats=lambda b, a: [(t_at(h, pt, a), t_at(h, pt, b))], split=sp)),
        ("phases-in-range", Q([I], lambda k: (z3.And(0 <= k, k < n), z3.And(p_at(h, pt, k) >= 0, p_at(h, pt, k) < 2 * PI)),
                              pats=lambda k: [p_at(h, pt, k)], split=sp)),
    ]


def last_time(h, pt):
    return t_at(h, pt, t_len(h, pt) - 1)


def last_phase(h, pt):
    return p_at(h, pt, p_len(h, pt) - 1)


from .lib import RMODK, fmt  # noqa: E402


def congruent(a, b):
    """a is the formatted value of b: a == b - 2PI*k (explicit witness), hence a == b (mod 2PI)"""
    return a == fmt(b)


inline(BR, "_PhaseTracker.last_time")
inline(BR, "_PhaseTracker.last_phase")
inline(BR, "_PhaseTracker._format")

contract(BR, "_PhaseTracker.__init__", props=("C07",),
         params={"self": ("ref", "_PhaseTracker"), "initial_phase": "real"},
         ensures=lambda c: [(f"INV.{n}", cl) for n, cl in PTINV(c.new, T(c.self))] + [
             ("one-entry", t_len(c.new, T(c.self)) == 1),
             ("initial-phase-mod-2pi", congruent(last_phase(c.new, T(c.self)), T(c.initial_phase)))],
         modifies={TIMES: lambda c: [T(c.self)], PHASES: lambda c: [T(c.self)]})


def setitem_ensures(c):
    pt = T(c.self)
    t, phi = T(c.t), T(c.phi)
    n0 = t_len(c.old, pt)
    k = z3.Int("k!si")
    return [(f"INV.{n}", cl) for n, cl in PTINV(c.new, pt)] + [
        ("value-at-t-is-phi-mod-2pi", z3.Exists([k], z3.And(0 <= k, k < t_len(c.new, pt), t_at(c.new, pt, k) == t, p_at(c.new, pt, k) == fmt(phi)))),
        ("at-or-after-last-time-becomes-last", z3.Implies(t >= last_time(c.old, pt),
                                                          z3.And(last_time(c.new, pt) == t, congruent(last_phase(c.new, pt), phi)))),
        ("other-times-keep-their-phase", Q([I], lambda i: (z3.And(0 <= i, i < n0, t_at(c.old, pt, i) != t),
                                                           (lambda j: z3.And(t_at(c.new, pt, j) == t_at(c.old, pt, i), p_at(c.new, pt, j) == p_at(c.old, pt, i)))(
                                                               i + z3.If(t_at(c.old, pt, i) > t, t_len(c.new, pt) - n0, 0))),
                                           pats=lambda i: [t_at(c.old, pt, i)])),
        ("grows-by-at-most-one", z3.And(t_len(c.new, pt) >= n0, t_len(c.new, pt) <= n0 + 1)),
    ]


contract(BR, "_PhaseTracker.__setitem__", props=("C07",),
         params={"self": ("ref", "_PhaseTracker"), "t": "int", "phi": "real"},
         requires=lambda c: PTINV(c.old, T(c.self)) + [("t>=0", T(c.t) >= 0)],
         ensures=setitem_ensures,
         modifies={TIMES: lambda c: [T(c.self)], PHASES: lambda c: [T(c.self)]},
         exc_safe=True)

# --- _QubitRef ---------------------------------------------------------------
QPHASE, QLAST = "_QubitRef.phase", "_QubitRef.last_used"


def q_phase(h, q):
    return h.read(QPHASE, q)


def q_last(h, q):
    return h.read(QLAST, q)


def QRINV(h, q):
    pt = q_phase(h, q)
    return PTINV(h, pt) + [("last-used-not-before-last-shift", q_last(h, q) >= last_time(h, pt)),
                           ("tracker-allocated", z3.Select(h.get("$alloc"), pt))]


contract(BR, "_QubitRef.__init__", props=("C07",),
         params={"self": ("ref", "_QubitRef")},
         ensures=lambda c: [(f"INV.{n}", cl) for n, cl in QRINV(c.new, T(c.self))] + [
             ("zero-reference", z3.And(last_phase(c.new, q_phase(c.new, T(c.self))) == 0, q_last(c.new, T(c.self)) == 0))],
         modifies={QPHASE: lambda c: [T(c.self)], QLAST: lambda c: [T(c.self)], TIMES: None, PHASES: None, "$alloc": None})

contract(BR, "_QubitRef.increment_phase", props=("C07",),
         params={"self": ("ref", "_QubitRef"), "phi": "real"},
         requires=lambda c: QRINV(c.old, T(c.self)) + [("last-used>=0", q_last(c.old, T(c.self)) >= 0)],
         ensures=lambda c: (lambda q, pt: [(f"INV.{n}", cl) for n, cl in QRINV(c.new, q)] + [
             ("additive-mod-2pi", congruent(last_phase(c.new, pt), last_phase(c.old, pt) + T(c.phi))),
             ("shift-is-timed-at-last-use", last_time(c.new, pt) == q_last(c.old, q)),
             ("same-tracker", q_phase(c.new, q) == pt)])(T(c.self), q_phase(c.old, T(c.self))),
         modifies={TIMES: lambda c: [q_phase(c.old, T(c.self))], PHASES: lambda c: [q_phase(c.old, T(c.self))]},
         exc_safe=True)

contract(BR, "_QubitRef.update_last_used", props=("C07",),
         params={"self": ("ref", "_QubitRef"), "new_t": "int"},
         requires=lambda c: QRINV(c.old, T(c.self)),
         ensures=lambda c: [(f"INV.{n}", cl) for n, cl in QRINV(c.new, T(c.self))] + [
             ("monotone", z3.And(q_last(c.new, T(c.self)) >= q_last(c.old, T(c.self)), q_last(c.new, T(c.self)) >= T(c.new_t))),
             ("is-max", z3.Or(q_last(c.new, T(c.self)) == q_last(c.old, T(c.self)), q_last(c.new, T(c.self)) == T(c.new_t)))],
         modifies={QLAST: lambda c: [T(c.self)]})


# --- arithmetic lemma: formatting is additive modulo 2*PI ---------------------
from pyvc.contracts import lemma  # noqa: E402


def _add_build():
    a, b = z3.Real("a!pa"), z3.Real("b!pa")
    k = RMODK(a, 2 * PI) + RMODK(fmt(a) + b, 2 * PI)
    return [("pi", z3.And(PI > 3, PI < 4))], Q([R, R], lambda a, b: (z3.BoolVal(True), fmt(fmt(a) + b) == a + b - (2 * PI) * z3.ToReal(RMODK(a, 2 * PI) + RMODK(fmt(a) + b, 2 * PI)))), lambda a, b: []


lemma("L-phase-additive", _add_build,
      "(a mod 2pi + b) mod 2pi == a + b - 2pi*k for the explicit integer k = k(a) + k(fmt(a)+b): so a reference built by successive increments equals the sum of all shifts modulo 2pi")
