"""Accessors and shared predicates for writing contracts (z3 level)."""
import z3

from pyvc.core import B, I, R, Ref, QSet, Qid, PStr, SHAPES, field_owner, sort_of, str_const, uf, isinstance_term, dyn_class
from pyvc.contracts import Al, Q


def T(v):
    """Value -> z3 term."""
    from pyvc.core import Sym
    if isinstance(v, Sym):
        return v.t
    if isinstance(v, bool):
        return z3.BoolVal(v)
    if isinstance(v, int):
        return z3.IntVal(v)
    if isinstance(v, float):
        from pyvc.core import znum
        return znum(v)[0]
    if isinstance(v, str):
        return str_const(v)
    raise TypeError(f"T({v!r})")


def _key(cls, f):
    return f"{field_owner(cls, f)}.{f}"


def fget(cls, f, ref, heap=None):
    """Plain (non-opt, non-list) field read at z3 level."""
    ty, mut = SHAPES[cls].fields[f]
    k = _key(cls, f)
    if isinstance(ty, tuple) and ty[0] == "opt":
        ty = ty[1]
    so = sort_of(ty)
    if mut:
        return heap.read(k, ref)
    return uf(k, Ref, so)(ref)


def fnone(cls, f, ref, heap=None):
    ty, mut = SHAPES[cls].fields[f]
    k = _key(cls, f) + "?"
    if mut:
        return heap.read(k, ref)
    return uf(k, Ref, B)(ref)


# ---- Channel ---------------------------------------------------------------
def clock(ch):
    return fget("Channel", "clock_period", ch)


def min_dur(ch):
    return fget("Channel", "min_duration", ch)


def max_dur(ch):
    return fget("Channel", "max_duration", ch)


def max_dur_none(ch):
    return fnone("Channel", "max_duration", ch)


def modbw(ch):
    return fget("Channel", "mod_bandwidth", ch)


def modbw_none(ch):
    return fnone("Channel", "mod_bandwidth", ch)


GLOBAL, LOCAL = str_const("Global"), str_const("Local")

# rise time as a function of the channel (defined by the inline-verified property; see channels.py)
RISE = uf("RISE", Ref, I)
EOM_RISE = uf("EOM_RISE", Ref, I)          # BaseEOM.rise_time of an eom config
FALL = uf("FALL", Ref, Ref, B, I)          # Pulse.fall_time(pulse, channel, in_eom_mode)
PJT = uf("PJT", Ref, I)                    # phase_jump_time


def valid_channel(ch):
    """Type invariant of Channel objects; the normal postcondition of Channel.__post_init__ (+ A-TYPES)."""
    mrn, mr = fnone("Channel", "min_retarget_interval", ch), fget("Channel", "min_retarget_interval", ch)
    frn, fr = fnone("Channel", "fixed_retarget_t", ch), fget("Channel", "fixed_retarget_t", ch)
    addr = fget("Channel", "addressing", ch)
    cpn, cp = fnone("Channel", "custom_phase_jump_time", ch), fget("Channel", "custom_phase_jump_time", ch)
    eomn, eom = fnone("Channel", "eom_config", ch), fget("Channel", "eom_config", ch)
    return [
        ("clock>=1", clock(ch) >= 1),
        ("min_duration>=1", min_dur(ch) >= 1),
        ("max>=min", z3.Or(max_dur_none(ch), max_dur(ch) >= min_dur(ch))),
        ("min_avg_amp>=0", fget("Channel", "min_avg_amp", ch) >= 0),
        ("max_amp>=0", z3.Or(fnone("Channel", "max_amp", ch), fget("Channel", "max_amp", ch) >= 0)),
        ("max_abs_det>=0", z3.Or(fnone("Channel", "max_abs_detuning", ch), fget("Channel", "max_abs_detuning", ch) >= 0)),
        ("bw>0", z3.Or(modbw_none(ch), z3.And(modbw(ch) > 0, modbw(ch) <= 480))),
        ("addressing", z3.Or(addr == GLOBAL, addr == LOCAL)),
        ("local-retarget", z3.If(addr == LOCAL, z3.And(z3.Not(mrn), mr >= 0, z3.Not(frn), fr >= 0), z3.And(mrn, frn))),
        ("cpjt>=0", z3.Or(cpn, cp >= 0)),
        ("eom-needs-bw", z3.Or(eomn, z3.Not(modbw_none(ch)))),
        ("eom-valid", z3.Or(eomn, z3.And(fget("BaseEOM", "mod_bandwidth", eom) > 0,
                                          z3.Or(fnone("BaseEOM", "custom_buffer_time", eom), fget("BaseEOM", "custom_buffer_time", eom) > 0)))),
    ]


def valid_channel_f(ch):
    return z3.And(*[c for _, c in valid_channel(ch)])


from pyvc.core import PI  # noqa: E402  symbolic constant for pi (A-REAL); only 3 < PI < 4 is assumed


RMODK = uf("RMODK", R, R, I)


def fmt(x):
    """x mod 2*PI as Python computes `x % (2*np.pi)` under A-REAL: x - 2PI*k, k = RMODK(x, 2PI) the integer quotient"""
    return x - (2 * PI) * z3.ToReal(RMODK(x, 2 * PI))


# ---- _TimeSlot -------------------------------------------------------------
def s_ti(s):
    return uf("_TimeSlot.ti", Ref, I)(s)


def s_tf(s):
    return uf("_TimeSlot.tf", Ref, I)(s)


def s_kind(s):
    return uf("_TimeSlot.type.kind", Ref, I)(s)


def s_pulse(s):
    return uf("_TimeSlot.type.pulse", Ref, Ref)(s)


def s_targets(s):
    return uf("_TimeSlot.targets", Ref, QSet)(s)


TARGET, DELAY, PULSE = 0, 1, 2


WDUR = uf("WDUR", Ref, I)   # abstract Waveform.duration (every subclass implements it; behavioural-subtyping contract)


def p_duration(p):
    return WDUR(uf("Pulse.amplitude", Ref, Ref)(p))


def p_phase(p):
    return uf("Pulse.phase", Ref, R)(p)


IS_DETUNED_DELAY = uf("IS_DETUNED_DELAY", Ref, B)   # _ChannelSchedule.is_detuned_delay(pulse)


# ---- _ChannelSchedule ------------------------------------------------------
def cs_chan(cs):
    return uf("_ChannelSchedule.channel_obj", Ref, Ref)(cs)


def cs_len(h, cs):
    return h.read("_ChannelSchedule.slots.len", cs)


def cs_arr(h, cs):
    return h.read("_ChannelSchedule.slots.at", cs)


def cs_at(h, cs, k):
    return z3.Select(cs_arr(h, cs), k)


def eb_len(h, cs):
    return h.read("_ChannelSchedule.eom_blocks.len", cs)


def eb_at(h, cs, k):
    return z3.Select(h.read("_ChannelSchedule.eom_blocks.at", cs), k)


def eb_tf_none(h, b):
    return h.read("_EOMSettings.tf?", b)


def eb_tf(h, b):
    return h.read("_EOMSettings.tf", b)


def eb_ti(b):
    return uf("_EOMSettings.ti", Ref, I)(b)


def eb_det_off(b):
    return uf("_EOMSettings.detuning_off", Ref, R)(b)


def in_eom(h, cs):
    """_ChannelSchedule.in_eom_mode() with no argument."""
    n = eb_len(h, cs)
    return z3.And(n != 0, eb_tf_none(h, eb_at(h, cs, n - 1)))


# ---- _Schedule -------------------------------------------------------------
def sch_dom(h, sch):
    return h.read("_Schedule._d.dom", sch)


def sch_map(h, sch):
    return h.read("_Schedule._d.map", sch)


def sch_get(h, sch, key):
    return z3.Select(sch_map(h, sch), key)


def sch_has(h, sch, key):
    return z3.Select(sch_dom(h, sch), key)


def sch_maxdur(sch):
    return uf("_Schedule.max_duration", Ref, I)(sch)


def sch_maxdur_none(sch):
    return uf("_Schedule.max_duration?", Ref, B)(sch)


# ---- global axioms (each is an assumption listed in the evidence) ----------
AXIOMS = []   # (name, formula, justification)


def axiom(name, formula, why):
    AXIOMS.append((name, formula, why))


_p, _c, _e = z3.Const("p!ax", Ref), z3.Const("c!ax", Ref), z3.Const("e!ax", B)
axiom("A-FALL", z3.ForAll([_p, _c, _e], z3.And(FALL(_p, _c, _e) >= 0, FALL(_p, _c, _e) <= 2 * RISE(_c)), patterns=[FALL(_p, _c, _e)]),
      "every stored pulse's fall time is what Pulse.fall_time returns; its contract (proved) gives Rm <= res <= 2*Rm, "
      "and A-EOMBW (EOM rise time <= channel rise time, not enforced by the code) gives 2*Rm <= 2*RISE")
axiom("A-RISE>=0", z3.ForAll([_c], RISE(_c) >= 0, patterns=[RISE(_c)]), "rise_time contract: nonneg (proved)")
axiom("A-EOMBW", z3.ForAll([_c], z3.And(EOM_RISE(_c) >= 0, z3.ForAll([_p], z3.Implies(fget("Channel", "eom_config", _p) == _c, EOM_RISE(_c) <= RISE(_p)))), patterns=[EOM_RISE(_c)]),
      "input-validity assumption: an EOM's modulation bandwidth is not below its channel's (DESIGN section 5 item 14)")


# ---- spec functions over a slot list (conservative definitions) -------------
SlotArr = z3.ArraySort(I, Ref)
LPSI = uf("LPSI", SlotArr, I, B, I)   # index of the most recent pulse slot (optionally ignoring detuned delays)
LTI = uf("LTI", SlotArr, I, I)        # index of the most recent target slot


def lps_match(arr, k, ign):
    s = z3.Select(arr, k)
    return z3.And(s_kind(s) == PULSE, z3.Not(z3.And(ign, IS_DETUNED_DELAY(s_pulse(s)))))


def lpsi_def(arr, n, ign):
    """If some slot matches, LPSI is a matching index and no later index matches."""
    k = z3.Int("k!lps")
    L = LPSI(arr, n, ign)
    return z3.ForAll([k], z3.Implies(z3.And(0 <= k, k < n, lps_match(arr, k, ign)),
                                     z3.And(L >= k, L < n, lps_match(arr, L, ign))), patterns=[z3.Select(arr, k)])


def lps_none(arr, n, ign):
    k = z3.Int("k!lpn")
    return z3.ForAll([k], z3.Implies(z3.And(0 <= k, k < n), z3.Not(lps_match(arr, k, ign))), patterns=[z3.Select(arr, k)])


def lti_def(arr, n):
    k = z3.Int("k!lt")
    L = LTI(arr, n)
    return z3.ForAll([k], z3.Implies(z3.And(0 <= k, k < n, s_kind(z3.Select(arr, k)) == TARGET),
                                     z3.And(L >= k, L < n, s_kind(z3.Select(arr, L)) == TARGET)), patterns=[z3.Select(arr, k)])

axiom("A-PI", z3.And(PI > 3, PI < 4), "pi is a real constant between 3 and 4 (only its positivity/size is ever used)")

_pp = z3.Const("p!defs", Ref)
