"""C08 (mechanism): variables count their updates strictly, so a cached ParamObj instance is never stale."""
import z3

from pyvc.contracts import Q, contract, inline
from pyvc.core import B, I, Ref, uf
from .lib import T

VF = "pulser-core/pulser/parametrized/variable.py"
ASIZE = uf("ASIZE", Ref, I)        # number of entries of an array-like value (pm.AbstractArray(...).size)
AARR = uf("AARR", Ref, Ref, Ref)   # pm.AbstractArray(value, dtype=.., force_array=True): the stored array, a function of (value, dtype-holder)


def count(h, v):
    return h.read("Variable._count", v)


def val_none(h, v):
    return h.read("Variable.value?", v)


def val(h, v):
    return h.read("Variable.value", v)


contract(VF, "Variable._validate_value", props=("C08",), trusted=True,
         note="pm.AbstractArray(value, dtype, force_array=True) (numpy/torch conversion) outside the subset; interface contract: returns the converted array iff its size is the variable's size",
         params={"self": ("ref", "Variable"), "value": ("ref", "Obj")}, result=("ref", "Obj"),
         raises={"ValueError": lambda c: ASIZE(AARR(T(c.value), T(c.self))) != uf("Variable.size", Ref, I)(T(c.self))},
         ensures=lambda c: [("converted-array-of-the-right-size", z3.And(T(c.res) == AARR(T(c.value), T(c.self)), ASIZE(T(c.res)) == uf("Variable.size", Ref, I)(T(c.self))))])

contract(VF, "Variable._clear", props=("C08",),
         params={"self": ("ref", "Variable")},
         ensures=lambda c: [("value-cleared", val_none(c.new, T(c.self))), ("update-counted", count(c.new, T(c.self)) == count(c.old, T(c.self)) + 1)],
         modifies={"Variable.value": lambda c: [T(c.self)], "Variable._count": lambda c: [T(c.self)]})

contract(VF, "Variable._assign", props=("C08",),
         params={"self": ("ref", "Variable"), "value": ("ref", "Obj")},
         raises={"ValueError": lambda c: ASIZE(AARR(T(c.value), T(c.self))) != uf("Variable.size", Ref, I)(T(c.self))},
         ensures=lambda c: [("value-stored", z3.And(z3.Not(val_none(c.new, T(c.self))), val(c.new, T(c.self)) == AARR(T(c.value), T(c.self)))),
                            ("every-assignment-is-counted", count(c.new, T(c.self)) == count(c.old, T(c.self)) + 1)],
         modifies={"Variable.value": lambda c: [T(c.self)], "Variable._count": lambda c: [T(c.self)]},
         exc_safe=True)

contract(VF, "Variable.build", props=("C08",),
         params={"self": ("ref", "Variable")}, result=("ref", "Obj"),
         raises={"ValueError": lambda c: val_none(c.old, T(c.self))},
         ensures=lambda c: [("returns-the-assigned-value", T(c.res.val if hasattr(c.res, "none") else c.res) == val(c.old, T(c.self)))])
