"""Contracts for pulser-core/pulser/sequence/_schedule.py (DESIGN appendix A.3)."""
import z3

from pyvc.contracts import Al, Bridge, LoopSpec, Q, contract, inline
from pyvc.core import I, Ref, Sym, OptV
from .lib import (DELAY, EOM_RISE, FALL, IS_DETUNED_DELAY, PULSE, RISE, TARGET, T, clock, cs_arr, cs_at,
                  cs_chan, cs_len, eb_at, eb_len, eb_tf_none, fget, fnone, in_eom, max_dur,
                  max_dur_none, min_dur, p_duration, s_kind, s_pulse, s_targets, s_tf, s_ti,
                  sch_dom, sch_get, sch_has, sch_map, sch_maxdur, sch_maxdur_none, valid_channel_f)

SF = "pulser-core/pulser/sequence/_schedule.py"


# --------------------------------------------------------------------------
# representation invariant of one channel schedule (DESIGN section 3, INV)
# --------------------------------------------------------------------------
def fall_bounds(h, cs):
    """Assumed contract of Pulse.fall_time on the pulses of this schedule (proved in pulse.py contracts):
    0 <= FALL <= 2*RISE(channel), for both modes (A-EOMBW: the EOM is at least as fast as the channel)."""
    p, e = z3.Const("p!fb", Ref), z3.Const("e!fb", z3.BoolSort())
    ch = cs_chan(cs)
    return z3.ForAll([p, e], z3.And(FALL(p, ch, e) >= 0, FALL(p, ch, e) <= 2 * RISE(ch)), patterns=[FALL(p, ch, e)])


def INV(h, cs, split=None, only=None):
    n = cs_len(h, cs)
    arr = cs_arr(h, cs)
    at = lambda k: z3.Select(arr, k)
    ch = cs_chan(cs)
    c, m = clock(ch), min_dur(ch)
    sp = split or []
    cl = [
        ("len>=0", n >= 0),
        ("first-is-initial-target", z3.Implies(n >= 1, z3.And(s_kind(at(0)) == TARGET, s_ti(at(0)) == -1, s_tf(at(0)) == 0))),
        ("kinds", Q([I], lambda k: (z3.And(0 <= k, k < n), z3.And(s_kind(at(k)) >= 0, s_kind(at(k)) <= 2)),
                    pats=lambda k: [at(k)], split=sp)),
        ("contiguous", Q([I], lambda k: (z3.And(1 <= k, k < n), z3.And(s_ti(at(k)) == s_tf(at(k - 1)), s_ti(at(k)) <= s_tf(at(k)))),
                         pats=lambda k: [at(k)], split=sp)),
        ("monotone", Q([I, I], lambda a, b: (z3.And(0 <= a, a <= b, b < n), s_tf(at(a)) <= s_tf(at(b))),
                       pats=lambda a, b: [(at(a), at(b))], split=sp)),
        ("boundaries-nonneg", Q([I], lambda k: (z3.And(0 <= k, k < n), s_tf(at(k)) >= 0), pats=lambda k: [at(k)], split=sp)),
        ("clock-aligned", Q([I], lambda k: (z3.And(0 <= k, k < n), Al(c, s_tf(at(k)))), pats=lambda k: [at(k)], split=sp)),
        ("pulse-occupies-its-duration", Q([I], lambda k: (z3.And(0 <= k, k < n, s_kind(at(k)) == PULSE),
                                                       s_tf(at(k)) - s_ti(at(k)) == p_duration(s_pulse(at(k)))),
                                          pats=lambda k: [at(k)], split=sp)),
        ("min-duration", Q([I], lambda k: (z3.And(1 <= k, k < n),
                                           z3.And(z3.Implies(s_kind(at(k)) == DELAY, s_tf(at(k)) - s_ti(at(k)) >= m),
                                                  z3.Implies(s_kind(at(k)) == TARGET, z3.Or(s_tf(at(k)) == s_ti(at(k)), s_tf(at(k)) - s_ti(at(k)) >= m)))),
                           pats=lambda k: [at(k)], split=sp)),
        ("targets-change-only-at-target-slots", Q([I], lambda k: (z3.And(1 <= k, k < n, s_kind(at(k)) != TARGET),
                                                                  s_targets(at(k)) == s_targets(at(k - 1))),
                                                  pats=lambda k: [at(k)], split=sp)),
    ]
    if only:
        cl = [x for x in cl if x[0] in only]
    return cl


def EOMWF(h, cs):
    """EOM blocks only exist on channels with an EOM (established by Sequence.enable_eom_mode's guard)."""
    return [("eom-blocks-wf", z3.And(eb_len(h, cs) >= 0,
                                      z3.Implies(eb_len(h, cs) > 0, z3.Not(fnone("Channel", "eom_config", cs_chan(cs))))))]


def prefix(c, cs):
    """old slots are a prefix of new slots (instruction times never move)."""
    n0 = cs_len(c.old, cs)
    return [("append-only.len", cs_len(c.new, cs) >= n0),
            ("append-only.prefix", Q([I], lambda k: (z3.And(0 <= k, k < n0), cs_at(c.new, cs, k) == cs_at(c.old, cs, k)),
                                     pats=lambda k: [cs_at(c.new, cs, k)]))]


def S(c, heap=None):
    """the _ChannelSchedule self[channel]"""
    return sch_get(heap or c.old, T(c.self), T(c.channel))


def has_channel(c):
    return ("channel-declared", sch_has(c.old, T(c.self), T(c.channel)))


SLOTS = "_ChannelSchedule.slots"

# --------------------------------------------------------------------------
# small accessors
# --------------------------------------------------------------------------
inline(SF, "_ChannelSchedule.__getitem__")
inline(SF, "_ChannelSchedule.in_eom_mode")

contract(SF, "_ChannelSchedule.adjust_duration", props=("C02", "C03", "C18"),
         params={"self": ("ref", "_ChannelSchedule"), "duration": "int"}, result="int",
         requires=lambda c: [("valid_channel", valid_channel_f(cs_chan(T(c.self))))],
         ensures=lambda c: (lambda ch, d, r: [
             ("clock_multiple", Al(clock(ch), r)),
             ("at_least_duration", r >= d),
             ("at_least_min", r >= min_dur(ch)),
             ("least", r < z3.If(d >= min_dur(ch), d, min_dur(ch)) + clock(ch)),
             ("at_most_max", z3.Or(max_dur_none(ch), r <= max_dur(ch))),
             ("positive", r >= 1),
         ])(cs_chan(T(c.self)), T(c.duration), T(c.res)),
         raises={"ValueError": lambda c: (lambda ch, d: z3.And(z3.Not(max_dur_none(ch)), z3.If(d >= min_dur(ch), d, min_dur(ch)) > max_dur(ch)))(cs_chan(T(c.self)), T(c.duration))},
         )

contract(SF, "_Schedule._check_duration", props=("C01",),
         params={"self": ("ref", "_Schedule"), "t": "int", "block_over_max_duration": "bool"},
         ensures=lambda c: [("within-max", z3.Implies(T(c.block_over_max_duration), z3.Or(sch_maxdur_none(T(c.self)), T(c.t) <= sch_maxdur(T(c.self)))))],
         raises={"RuntimeError": lambda c: z3.And(T(c.block_over_max_duration), z3.Not(sch_maxdur_none(T(c.self))), T(c.t) > sch_maxdur(T(c.self)))},
         )


# --------------------------------------------------------------------------
# _ChannelSchedule.get_duration
# --------------------------------------------------------------------------
def gd_post(h, cs, inc, res):
    n = cs_len(h, cs)
    at = lambda k: cs_at(h, cs, k)
    ch = cs_chan(cs)
    last_tf = s_tf(at(n - 1))
    fall = lambda k: FALL(s_pulse(at(k)), ch, in_eom(h, cs))
    j = z3.Int("j!gd")
    return [
        ("empty", z3.Implies(n == 0, res == 0)),
        ("plain-is-end-of-last", z3.Implies(z3.And(n > 0, z3.Not(inc)), res == last_tf)),
        ("at-least-end-of-last", z3.Implies(n > 0, res >= last_tf)),
        ("fall-of-most-recent-pulse", Q([I], lambda k: (
            z3.And(inc, 0 <= k, k < n, s_kind(at(k)) == PULSE,
                   z3.ForAll([j], z3.Implies(z3.And(k < j, j < n), s_kind(at(j)) != PULSE), patterns=[at(j)])),
            res == z3.If(last_tf >= s_tf(at(k)) + fall(k), last_tf, s_tf(at(k)) + fall(k))),
            pats=lambda k: [at(k)])),
        ("no-pulse", z3.Implies(z3.And(inc, n > 0, z3.ForAll([j], z3.Implies(z3.And(0 <= j, j < n), s_kind(at(j)) != PULSE), patterns=[at(j)])),
                                res == last_tf)),
    ]


def gd_loop_inv(c):
    cs = T(c.self)
    h = c.new
    n = cs_len(h, cs)
    at = lambda k: cs_at(h, cs, k)
    j = c.j
    temp = T(c.st.env["temp_tf"])
    inc = T(c.a["include_fall_time"])
    return [
        ("start", z3.Implies(j == 0, temp == 0)),
        ("after-first", z3.Implies(j >= 1, z3.And(temp == s_tf(at(n - 1)), inc))),
        ("visited-are-not-pulses", Q([I], lambda i: (z3.And(j >= 1, n - j <= i, i < n), s_kind(at(i)) != PULSE),
                                     pats=lambda i: [at(i)])),
    ]


contract(SF, "_ChannelSchedule.get_duration", props=("C02", "C03", "C10"),
         params={"self": ("ref", "_ChannelSchedule"), "include_fall_time": "bool"}, result="int",
         requires=lambda c: INV(c.old, T(c.self), only=("len>=0", "monotone", "kinds", "boundaries-nonneg"))
         + EOMWF(c.old, T(c.self)) + [("valid_channel", valid_channel_f(cs_chan(T(c.self))))],
         ensures=lambda c: gd_post(c.old, T(c.self), T(c.include_fall_time), T(c.res)),
         loops={0: LoopSpec(gd_loop_inv)},
         )
