"""Contracts for pulser-core/pulser/sequence/_schedule.py (DESIGN appendix A.3)."""
import z3

from pyvc.contracts import Al, Bridge, LoopSpec, Q, QF, contract, inline
from pyvc.core import I, Ref, Sym, OptV
from .lib import (LOCAL, GLOBAL, DELAY, EOM_RISE, FALL, IS_DETUNED_DELAY, PULSE, RISE, TARGET, T, clock, cs_arr, cs_at,
                  cs_chan, cs_len, eb_at, eb_len, eb_tf_none, fget, fnone, in_eom, max_dur,
                  max_dur_none, min_dur, p_duration, s_kind, s_pulse, s_targets, s_tf, s_ti,
                  sch_dom, sch_get, sch_has, sch_map, sch_maxdur, sch_maxdur_none, valid_channel_f)

from .lib import LPSI, lps_none, lpsi_def  # noqa: E402
SF = "pulser-core/pulser/sequence/_schedule.py"
LRT_HYPS = ("len>=0", "kinds", "monotone", "contiguous", "targets-change-only-at-target-slots", "retarget-after-fall")


# --------------------------------------------------------------------------
# representation invariant of one channel schedule (DESIGN section 3, INV)
# --------------------------------------------------------------------------
def fall_bounds(h, cs):
    """Assumed contract of Pulse.fall_time on the pulses of this schedule (proved in pulse.py contracts):
    0 <= FALL <= 2*RISE(channel), for both modes (A-EOMBW: the EOM is at least as fast as the channel)."""
    p, e = z3.Const("p!fb", Ref), z3.Const("e!fb", z3.BoolSort())
    ch = cs_chan(cs)
    return z3.ForAll([p, e], z3.And(FALL(p, ch, e) >= 0, FALL(p, ch, e) <= 2 * RISE(ch)), patterns=[FALL(p, ch, e)])


def INV(h, cs, split=None, only=None):
    return INVA(cs_arr(h, cs), cs_len(h, cs), cs_chan(cs), split, only)


def INVA(arr, n, ch, split=None, only=None):
    at = lambda k: z3.Select(arr, k)
    c, m = clock(ch), min_dur(ch)
    sp = split or []
    cl = [
        ("len>=0", n >= 0),
        ("first-is-initial-target", z3.Implies(n >= 1, z3.And(s_kind(at(0)) == TARGET, s_ti(at(0)) == -1, s_tf(at(0)) == 0))),
        ("kinds", Q([I], lambda k: (z3.And(0 <= k, k < n), z3.And(s_kind(at(k)) >= 0, s_kind(at(k)) <= 2)),
                    pats=lambda k: [at(k)], split=sp)),
        ("contiguous", Q([I], lambda k: (z3.And(1 <= k, k < n), z3.And(s_ti(at(k)) == s_tf(at(k - 1)), s_ti(at(k)) <= s_tf(at(k)))),
                         pats=lambda k: [at(k)], split=sp)),
        ("monotone", Q([I, I], lambda b, a: (z3.And(0 <= a, a <= b, b < n), s_tf(at(a)) <= s_tf(at(b))),
                       pats=lambda b, a: [(at(a), at(b))], split=sp)),
        ("boundaries-nonneg", Q([I], lambda k: (z3.And(0 <= k, k < n), s_tf(at(k)) >= 0), pats=lambda k: [at(k)], split=sp)),
        ("clock-aligned", Q([I], lambda k: (z3.And(0 <= k, k < n), Al(c, s_tf(at(k)))), pats=lambda k: [at(k)], split=sp)),
        ("pulse-occupies-its-duration", Q([I], lambda k: (z3.And(0 <= k, k < n, s_kind(at(k)) == PULSE),
                                                       s_tf(at(k)) - s_ti(at(k)) == p_duration(s_pulse(at(k)))),
                                          pats=lambda k: [at(k)], split=sp)),
        ("pulses-are-valid", Q([I], lambda k: (z3.And(0 <= k, k < n, s_kind(at(k)) == PULSE), valid_pulse_(s_pulse(at(k)))),
                               pats=lambda k: [at(k)], split=sp)),
        ("min-duration", Q([I], lambda k: (z3.And(1 <= k, k < n),
                                           z3.And(z3.Implies(s_kind(at(k)) == DELAY, s_tf(at(k)) - s_ti(at(k)) >= m),
                                                  z3.Implies(s_kind(at(k)) == TARGET, z3.Or(s_tf(at(k)) == s_ti(at(k)), s_tf(at(k)) - s_ti(at(k)) >= m)))),
                           pats=lambda k: [at(k)], split=sp)),
        ("targets-change-only-at-target-slots", Q([I], lambda k: (z3.And(1 <= k, k < n, s_kind(at(k)) != TARGET),
                                                                  s_targets(at(k)) == s_targets(at(k - 1))),
                                                  pats=lambda k: [at(k)], split=sp)),
        ("retarget-after-fall", Q([I, I], lambda t, p: (
            z3.And(1 <= t, t < n, s_kind(at(t)) == TARGET, 0 <= p, p < t, s_kind(at(p)) == PULSE, no_pulse_between(arr, p, t)),
            s_tf(at(p)) + FALL(s_pulse(at(p)), ch, z3.BoolVal(False)) <= s_ti(at(t))),
            pats=lambda t, p: [(at(t), at(p))], split=sp)),
        ("retarget-interval", Q([I, I], lambda b, a: (
            z3.And(0 <= a, a < b, b < n, s_kind(at(a)) == TARGET, s_kind(at(b)) == TARGET, fget("Channel", "addressing", ch) == LOCAL),
            s_tf(at(b)) - s_tf(at(a)) >= fget("Channel", "min_retarget_interval", ch)),
            pats=lambda b, a: [(at(a), at(b))], split=sp)),
        ("fixed-retarget-time", Q([I], lambda b: (
            z3.And(1 <= b, b < n, s_kind(at(b)) == TARGET, fget("Channel", "addressing", ch) == LOCAL),
            s_tf(at(b)) - s_ti(at(b)) >= fget("Channel", "fixed_retarget_t", ch)),
            pats=lambda b: [at(b)], split=sp)),
    ]
    if only:
        cl = [x for x in cl if x[0] in only]
    return cl


def no_pulse_between(arr, p, t):
    j = z3.Int("j!npb")
    return z3.ForAll([j], z3.Implies(z3.And(p < j, j < t), s_kind(z3.Select(arr, j)) != PULSE), patterns=[z3.Select(arr, j)])


def EOMWF(h, cs):
    """EOM blocks only exist on channels with an EOM (established by Sequence.enable_eom_mode's guard)."""
    return [("eom-blocks-wf", z3.And(eb_len(h, cs) >= 0,
                                      z3.Implies(eb_len(h, cs) > 0, z3.Not(fnone("Channel", "eom_config", cs_chan(cs))))))]


def bridges(c, cs):
    """proof steps: relate selects on the old and the new slot array (triggers in both directions)."""
    n0 = cs_len(c.old, cs)
    return [("assert:bridge-old-to-new", Q([I], lambda k: (z3.And(0 <= k, k < n0), cs_at(c.new, cs, k) == cs_at(c.old, cs, k)),
                                           pats=lambda k: [cs_at(c.old, cs, k)])),
            ("assert:bridge-new-to-old", Q([I], lambda k: (z3.And(0 <= k, k < n0), cs_at(c.new, cs, k) == cs_at(c.old, cs, k)),
                                           pats=lambda k: [cs_at(c.new, cs, k)]))]


def prefix(c, cs):
    """old slots are a prefix of new slots (instruction times never move)."""
    n0 = cs_len(c.old, cs)
    return bridges(c, cs) + [("append-only.len", cs_len(c.new, cs) >= n0),
            ("append-only.prefix", Q([I], lambda k: (z3.And(0 <= k, k < n0), cs_at(c.new, cs, k) == cs_at(c.old, cs, k)),
                                     pats=lambda k: [cs_at(c.new, cs, k)]))]


def CHN(c):
    return T(c.a["channel"] if "channel" in c.a else c.a["channel_id"])


def S(c, heap=None):
    """the _ChannelSchedule self[channel]"""
    return sch_get(heap or c.old, T(c.self), CHN(c))


def has_channel(c):
    return ("channel-declared", sch_has(c.old, T(c.self), CHN(c)))


SLOTS = "_ChannelSchedule.slots"

# --------------------------------------------------------------------------
# small accessors
# --------------------------------------------------------------------------
inline(SF, "_ChannelSchedule.__getitem__")
contract(SF, "_ChannelSchedule.in_eom_mode", props=("C13", "C15", "C02"),
         params={"self": ("ref", "_ChannelSchedule"), "time_slot": ("opt", ("ref", "_TimeSlot"))}, result="bool",
         requires=lambda c: [("current-mode-query", c.time_slot.none), ("eom-blocks-wf", eb_len(c.old, T(c.self)) >= 0)],
         ensures=lambda c: [("open-last-block", T(c.res) == in_eom(c.old, T(c.self)))])

contract(SF, "_ChannelSchedule.adjust_duration", props=("C02", "C03", "C18"),
         params={"self": ("ref", "_ChannelSchedule"), "duration": "int"}, result="int",
         requires=lambda c: [("valid_channel", valid_channel_f(cs_chan(T(c.self))))],
         ensures=lambda c: (lambda ch, d, r: [
             ("clock_multiple", Al(clock(ch), r)),
             ("at_least_duration", r >= d),
             ("at_least_min", r >= min_dur(ch)),
             ("least", r < z3.If(d >= min_dur(ch), d, min_dur(ch)) + clock(ch)),
             ("positive", r >= 1),
         ])(cs_chan(T(c.self)), T(c.duration), T(c.res)),
         raises={"ValueError": lambda c: (lambda ch, d: z3.And(z3.Not(max_dur_none(ch)), z3.If(d >= min_dur(ch), d, min_dur(ch)) > max_dur(ch)))(cs_chan(T(c.self)), T(c.duration))},
         )

contract(SF, "_Schedule._check_duration", props=("C01",),
         params={"self": ("ref", "_Schedule"), "t": "int", "block_over_max_duration": "bool"},
         ensures=lambda c: [("within-max", z3.Implies(T(c.block_over_max_duration), z3.Or(sch_maxdur_none(T(c.self)), T(c.t) <= sch_maxdur(T(c.self)))))],
         raises={"RuntimeError": lambda c: z3.And(T(c.block_over_max_duration), z3.Not(sch_maxdur_none(T(c.self))), T(c.t) > sch_maxdur(T(c.self)))},
         )


# --------------------------------------------------------------------------
# _ChannelSchedule.get_duration
# --------------------------------------------------------------------------
def gd_post(h, cs, inc, res):
    n = cs_len(h, cs)
    at = lambda k: cs_at(h, cs, k)
    ch = cs_chan(cs)
    last_tf = s_tf(at(n - 1))
    fall = lambda k: FALL(s_pulse(at(k)), ch, in_eom(h, cs))
    j = z3.Int("j!gd")
    return [
        ("empty", z3.Implies(n == 0, res == 0)),
        ("plain-is-end-of-last", z3.Implies(z3.And(n > 0, z3.Not(inc)), res == last_tf)),
        ("at-least-end-of-last", z3.Implies(n > 0, res >= last_tf)),
        ("fall-of-most-recent-pulse", Q([I], lambda k: (
            z3.And(inc, 0 <= k, k < n, s_kind(at(k)) == PULSE,
                   z3.ForAll([j], z3.Implies(z3.And(k < j, j < n), s_kind(at(j)) != PULSE), patterns=[at(j)])),
            res == z3.If(last_tf >= s_tf(at(k)) + fall(k), last_tf, s_tf(at(k)) + fall(k))),
            pats=lambda k: [at(k)])),
        ("fall-of-most-recent-pulse-L", z3.Implies(z3.And(inc, n > 0, z3.Not(lps_none(cs_arr(h, cs), n, z3.BoolVal(False)))),
                                                   (lambda L: res == z3.If(last_tf >= s_tf(at(L)) + fall(L), last_tf, s_tf(at(L)) + fall(L)))(LPSI(cs_arr(h, cs), n, z3.BoolVal(False))))),
        ("no-pulse", z3.Implies(z3.And(inc, n > 0, z3.ForAll([j], z3.Implies(z3.And(0 <= j, j < n), s_kind(at(j)) != PULSE), patterns=[at(j)])),
                                res == last_tf)),
    ]


def gd_loop_inv(c):
    cs = T(c.self)
    h = c.new
    n = cs_len(h, cs)
    at = lambda k: cs_at(h, cs, k)
    j = c.j
    temp = T(c.st.env["temp_tf"])
    inc = T(c.a["include_fall_time"])
    return [
        ("start", z3.Implies(j == 0, temp == 0)),
        ("after-first", z3.Implies(j >= 1, z3.And(temp == s_tf(at(n - 1)), inc))),
        ("visited-are-not-pulses", Q([I], lambda i: (z3.And(j >= 1, n - j <= i, i < n), s_kind(at(i)) != PULSE),
                                     pats=lambda i: [at(i)])),
    ]


contract(SF, "_ChannelSchedule.get_duration", props=("C02", "C03", "C10"),
         params={"self": ("ref", "_ChannelSchedule"), "include_fall_time": "bool"}, result="int",
         requires=lambda c: INV(c.old, T(c.self), only=("len>=0", "monotone", "kinds", "boundaries-nonneg"))
         + EOMWF(c.old, T(c.self)) + [("valid_channel", valid_channel_f(cs_chan(T(c.self))))],
         ensures=lambda c: gd_post(c.old, T(c.self), T(c.include_fall_time), T(c.res)),
         spec_defs=lambda c: [lpsi_def(cs_arr(c.old, T(c.self)), cs_len(c.old, T(c.self)), z3.BoolVal(False))],
         loops={0: LoopSpec(gd_loop_inv)},
         )


# --------------------------------------------------------------------------
# last_target / last_pulse_slot / _get_last_pulse_phase
# --------------------------------------------------------------------------
from .lib import LTI, lps_match, lti_def, p_phase, sort_of  # noqa: E402
from pyvc.core import B  # noqa: E402


def _arr_n(h, cs):
    return cs_arr(h, cs), cs_len(h, cs)


contract(SF, "_ChannelSchedule.last_target", props=("C10",),
         dead_paths=("loop[0]:done",),    # the fall-through `return 0  # pragma: no cover`: the first slot is always the initial target

         params={"self": ("ref", "_ChannelSchedule")}, result="int",
         requires=lambda c: INV(c.old, T(c.self), only=("len>=0", "first-is-initial-target")) + [("non-empty", cs_len(c.old, T(c.self)) >= 1)],
         spec_defs=lambda c: [lti_def(*_arr_n(c.old, T(c.self)))],
         ensures=lambda c: (lambda arr, n: [("tf-of-most-recent-target", T(c.res) == s_tf(z3.Select(arr, LTI(arr, n))))])(*_arr_n(c.old, T(c.self))),
         loops={0: LoopSpec(lambda c: (lambda arr, n: [
             ("visited-are-not-targets", Q([I], lambda i: (z3.And(n - c.j <= i, i < n), s_kind(z3.Select(arr, i)) != TARGET),
                                          pats=lambda i: [z3.Select(arr, i)]))])(*_arr_n(c.new, T(c.self))))},
         )

contract(SF, "_ChannelSchedule.last_pulse_slot", props=("C10", "C03"),
         params={"self": ("ref", "_ChannelSchedule"), "ignore_detuned_delay": "bool"}, result=("ref", "_TimeSlot"),
         requires=lambda c: INV(c.old, T(c.self), only=("len>=0", "kinds", "pulses-are-valid")),
         spec_defs=lambda c: [lpsi_def(*_arr_n(c.old, T(c.self)), T(c.ignore_detuned_delay)), IDD_DEF],
         ensures=lambda c: (lambda arr, n, ign: [
             ("is-most-recent-matching-slot", T(c.res) == z3.Select(arr, LPSI(arr, n, ign))),
             ("index-in-range", z3.And(0 <= LPSI(arr, n, ign), LPSI(arr, n, ign) < n)),
             ("matches", lps_match(arr, LPSI(arr, n, ign), ign)),
             ("none-later", Q([I], lambda k: (z3.And(LPSI(arr, n, ign) < k, k < n), z3.Not(lps_match(arr, k, ign))), pats=lambda k: [z3.Select(arr, k)])),
         ])(*_arr_n(c.old, T(c.self)), T(c.ignore_detuned_delay)),
         raises={"RuntimeError": lambda c: lps_none(*_arr_n(c.old, T(c.self)), T(c.ignore_detuned_delay))},
         loops={0: LoopSpec(lambda c: (lambda arr, n, ign: [
             ("visited-do-not-match", Q([I], lambda i: (z3.And(n - c.j <= i, i < n), z3.Not(lps_match(arr, i, ign))),
                                        pats=lambda i: [z3.Select(arr, i)]))])(*_arr_n(c.new, T(c.self)), T(c.a["ignore_detuned_delay"])))},
         )

from .lib import IS_DETUNED_DELAY  # noqa: E402
_pp = z3.Const("p!idd", Ref)
IDD_DEF = z3.BoolVal(True)   # is_detuned_delay is given its own contract below (result == IS_DETUNED_DELAY(pulse))

contract(SF, "_ChannelSchedule.is_detuned_delay", props=("C10", "C06", "C16"),
         requires=lambda c: [("valid-pulse", valid_pulse_(T(c.pulse)))],
         params={"pulse": ("ref", "Pulse")}, result="bool",
         ensures=lambda c: [("is-spec", T(c.res) == IS_DETUNED_DELAY(T(c.pulse)))])


def valid_pulse_(p):
    from .pulse import valid_pulse
    return valid_pulse(p)


def last_phase_post(h, cs, res):
    arr, n = _arr_n(h, cs)
    f = z3.BoolVal(False)
    return [("phase-of-most-recent-pulse", z3.If(lps_none(arr, n, f), res == 0, res == p_phase(s_pulse(z3.Select(arr, LPSI(arr, n, f))))))]


contract(SF, "_Schedule._get_last_pulse_phase", props=("C15",),
         params={"self": ("ref", "_Schedule"), "channel": "str"}, result="real",
         requires=lambda c: [has_channel(c)] + INV(c.old, S(c), only=("len>=0", "kinds", "pulses-are-valid")),
         ensures=lambda c: last_phase_post(c.old, S(c), T(c.res)),
         )


# --------------------------------------------------------------------------
# writers
# --------------------------------------------------------------------------
def writer_requires(c, cs=None):
    cs = cs if cs is not None else S(c)
    return [has_channel(c)] + INV(c.old, cs) + EOMWF(c.old, cs) + [
        ("valid_channel", valid_channel_f(cs_chan(cs))),
        ("within-max-sequence-duration", MAXD(c.old, T(c.self), cs)),
        ("schedule-wf", SCHED_WF(c.old, T(c.self))),
    ]


def MAXD(h, sch, cs):
    """INV.6: no boundary beyond the device's maximum sequence duration."""
    n = cs_len(h, cs)
    return z3.Or(sch_maxdur_none(sch), n == 0, s_tf(cs_at(h, cs, n - 1)) <= sch_maxdur(sch))


def SCHED_WF(h, sch):
    """distinct keys map to distinct, allocated channel schedules."""
    from pyvc.core import PStr
    a, b = z3.Const("a!wf", PStr), z3.Const("b!wf", PStr)
    dom, mp = sch_dom(h, sch), sch_map(h, sch)
    alloc = h.get("$alloc")
    return z3.And(
        z3.ForAll([a, b], z3.Implies(z3.And(z3.Select(dom, a), z3.Select(dom, b), a != b), z3.Select(mp, a) != z3.Select(mp, b)),
                  patterns=[z3.MultiPattern(z3.Select(mp, a), z3.Select(mp, b))]),
        z3.ForAll([a], z3.Implies(z3.Select(dom, a), z3.Select(alloc, z3.Select(mp, a))), patterns=[z3.Select(mp, a)]))


def appended_one(c, cs):
    n0 = cs_len(c.old, cs)
    return cs_len(c.new, cs) == n0 + 1, cs_at(c.new, cs, n0), cs_at(c.old, cs, n0 - 1)


def add_delay_ensures(c):
    cs = S(c)
    ch = cs_chan(cs)
    n0 = cs_len(c.old, cs)
    one, new, last = appended_one(c, cs)
    d = T(c.duration)
    r = s_tf(new) - s_ti(new)
    detuned = z3.And(in_eom(c.old, cs), eb_det_off(eb_at(c.old, cs, eb_len(c.old, cs) - 1)) != 0)
    return [
        ("appends-one-slot", one),
        ("starts-at-previous-end", s_ti(new) == s_tf(last)),
        ("lasts-a-clock-multiple", Al(clock(ch), r)),
        ("lasts-the-validated-duration", z3.And(r >= d, r < d + clock(ch), r >= min_dur(ch))),
        ("aligned-duration-unchanged", z3.Implies(d == clock(ch) * QF(clock(ch), d), r == d)),
        ("keeps-targets", s_targets(new) == s_targets(last)),
        ("kind", z3.If(detuned,
                       z3.And(s_kind(new) == PULSE, IS_DETUNED_DELAY(s_pulse(new)), p_duration(s_pulse(new)) == r),
                       s_kind(new) == DELAY)),
        ("within-max-sequence-duration", MAXD(c.new, T(c.self), cs)),
    ] + prefix(c, cs) + [(f"INV.{nm}", cl) for nm, cl in INV(c.new, cs, split=[n0])]


from .lib import eb_det_off  # noqa: E402

def mod_of_multiple(cl, q):
    """instance of the arithmetic lemma  c >= 1  =>  (c*q) % c == 0"""
    return z3.Implies(cl >= 1, (cl * q) % cl == 0)


def _mom_build():
    cl = z3.Int("c!mom")
    return [("c>=1", cl >= 1)], Q([I], lambda q: (z3.BoolVal(True), (cl * q) % cl == 0)), lambda q: []


from pyvc.contracts import lemma as _lemma  # noqa: E402
_lemma("A-mod-of-multiple", _mom_build, "a multiple of c has remainder 0 (pure arithmetic, discharged standalone so that no in-context nonlinear reasoning is needed)")

contract(SF, "_Schedule.add_delay", props=("C01", "C02", "C09"),
         lemmas=lambda c: [("A-mod-of-multiple", mod_of_multiple(clock(cs_chan(S(c))), QF(clock(cs_chan(S(c))), T(c.duration))))],
         params={"self": ("ref", "_Schedule"), "duration": "int", "channel": "str"},
         requires=writer_requires,
         ensures=add_delay_ensures,
         raises={
             "ValueError": lambda c: (lambda ch, d: z3.Or(cs_len(c.old, S(c)) == 0, d < min_dur(ch), z3.And(z3.Not(max_dur_none(ch)), d > max_dur(ch))))(cs_chan(S(c)), T(c.duration)),
             "RuntimeError": ("only-if", lambda c: z3.Not(sch_maxdur_none(T(c.self)))),
         },
         modifies={SLOTS: lambda c: [S(c)]},
         exc_safe=True,
         )


def most_recent_pulse(h, cs, k):
    """k is the index of the most recent pulse slot of cs in heap h."""
    n = cs_len(h, cs)
    j = z3.Int("j!mrp")
    return z3.And(0 <= k, k < n, s_kind(cs_at(h, cs, k)) == PULSE,
                  z3.ForAll([j], z3.Implies(z3.And(k < j, j < n), s_kind(cs_at(h, cs, j)) != PULSE), patterns=[cs_at(h, cs, j)]))


def at_rest(c, cs, hnew):
    """the channel's end is past the most recent pulse's end + fall time (in the *old* EOM mode)."""
    n1 = cs_len(hnew, cs)
    ch = cs_chan(cs)
    arr0, n0 = cs_arr(c.old, cs), cs_len(c.old, cs)
    L = LPSI(arr0, n0, z3.BoolVal(False))
    return z3.Implies(z3.Not(lps_none(arr0, n0, z3.BoolVal(False))),
                      s_tf(cs_at(hnew, cs, n1 - 1)) >= s_tf(z3.Select(arr0, L)) + FALL(s_pulse(z3.Select(arr0, L)), ch, in_eom(c.old, cs)))
    return Q([I], lambda k: (most_recent_pulse(c.old, cs, k),
                             s_tf(cs_at(hnew, cs, n1 - 1)) >= s_tf(cs_at(c.old, cs, k)) + FALL(s_pulse(cs_at(c.old, cs, k)), ch, in_eom(c.old, cs))),
             pats=lambda k: [cs_at(c.old, cs, k)])


def wff_ensures(c):
    cs = S(c)
    n0 = cs_len(c.old, cs)
    n1 = cs_len(c.new, cs)
    new = cs_at(c.new, cs, n0)
    return [
        ("appends-at-most-one-delay", z3.Or(n1 == n0, z3.And(n1 == n0 + 1, z3.Or(s_kind(new) == DELAY, z3.And(s_kind(new) == PULSE, IS_DETUNED_DELAY(s_pulse(new)))),
                                                           s_targets(new) == s_targets(cs_at(c.old, cs, n0 - 1))))),
        ("at-rest", at_rest(c, cs, c.new)),
        ("unchanged-when-at-rest", (lambda arr0, L: z3.Implies(
            z3.Or(n0 == 0, lps_none(arr0, n0, z3.BoolVal(False)),
                  s_tf(z3.Select(arr0, L)) + FALL(s_pulse(z3.Select(arr0, L)), cs_chan(cs), in_eom(c.old, cs)) <= s_tf(z3.Select(arr0, n0 - 1))),
            n1 == n0))(cs_arr(c.old, cs), LPSI(cs_arr(c.old, cs), n0, z3.BoolVal(False)))),
        ("plain-delay-outside-eom", z3.Implies(z3.And(n1 == n0 + 1, z3.Not(in_eom(c.old, cs))), s_kind(new) == DELAY)),
        ("within-max-sequence-duration", MAXD(c.new, T(c.self), cs)),
    ] + prefix(c, cs) + [(f"INV.{nm}", cl) for nm, cl in INV(c.new, cs)]


contract(SF, "_Schedule.wait_for_fall", props=("C02", "C10", "C15"),
         spec_defs=lambda c: [lpsi_def(cs_arr(c.old, S(c)), cs_len(c.old, S(c)), z3.BoolVal(False))],
         params={"self": ("ref", "_Schedule"), "channel": "str"},
         requires=writer_requires,
         ensures=wff_ensures,
         raises={"ValueError": ("only-if", lambda c: z3.Not(max_dur_none(cs_chan(S(c))))),
                 "RuntimeError": ("only-if", lambda c: z3.Not(sch_maxdur_none(T(c.self))))},
         modifies={SLOTS: lambda c: [S(c)]},
         exc_safe=True,
         )


# --------------------------------------------------------------------------
# _find_add_delay  (C03)
# --------------------------------------------------------------------------
from pyvc.core import Qid, PStr, str_const  # noqa: E402
NO_DELAY = str_const("no-delay")


def nonempty_inter(a, b):
    q = z3.Const("q!ni", Qid)
    return z3.Exists([q], z3.And(z3.Select(a, q), z3.Select(b, q)))


def conflict(slot, T0, protocol):
    return z3.Or(nonempty_inter(s_targets(slot), T0), protocol == str_const("wait-for-all"))


def fall_now(h, cs, slot):
    return FALL(s_pulse(slot), cs_chan(cs), in_eom(h, cs))


def fall_min(h, cs, slot):
    """fall time in the channel's current mode, or in non-EOM mode if that is shorter (DESIGN section 5 item 9)."""
    a, b = fall_now(h, cs, slot), FALL(s_pulse(slot), cs_chan(cs), z3.BoolVal(False))
    return z3.If(a <= b, a, b)


def fad_ctx(c):
    h = c.old
    sch = T(c.self)
    chan = CHN(c)
    prot = T(c.a["protocol"]) if "protocol" in c.a else NO_DELAY
    mine = sch_get(h, sch, chan)
    T0 = s_targets(cs_at(h, mine, cs_len(h, mine) - 1))
    return h, sch, chan, prot, T0


def most_recent_conflicting(h, cs, k, T0, prot):
    n = cs_len(h, cs)
    j = z3.Int("j!mrc")
    return z3.And(0 <= k, k < n, s_kind(cs_at(h, cs, k)) == PULSE, conflict(cs_at(h, cs, k), T0, prot),
                  z3.ForAll([j], z3.Implies(z3.And(k < j, j < n, s_kind(cs_at(h, cs, j)) == PULSE), z3.Not(conflict(cs_at(h, cs, j), T0, prot))),
                            patterns=[cs_at(h, cs, j)]))


def no_conflict_on(h, cs, T0, prot, cur, fall=fall_min):
    return Q([I], lambda k: (most_recent_conflicting(h, cs, k, T0, prot), cur >= s_tf(cs_at(h, cs, k)) + fall(h, cs, cs_at(h, cs, k))),
             pats=lambda k: [cs_at(h, cs, k)])


def caused_by_some_pulse(h, sch, chan, T0, prot, cur, key_ok=None):
    """exists another channel key and a conflicting pulse slot k there with cur == tf + fall."""
    key = z3.Const("key!ex", PStr)
    k = z3.Int("k!ex")
    cs = sch_get(h, sch, key)
    cond = z3.And(sch_has(h, sch, key), key != chan, 0 <= k, k < cs_len(h, cs), s_kind(cs_at(h, cs, k)) == PULSE,
                  conflict(cs_at(h, cs, k), T0, prot), cur == s_tf(cs_at(h, cs, k)) + fall_now(h, cs, cs_at(h, cs, k)))
    if key_ok is not None:
        cond = z3.And(cond, key_ok(key))
    return z3.Exists([key, k], cond)


def fad_requires(c):
    h = c.old
    sch = T(c.self)
    key = z3.Const("key!rq", PStr)
    out = [has_channel(c), ("schedule-wf", SCHED_WF(h, sch)),
           ("own-channel-has-target", cs_len(h, S(c)) >= 1)]
    # every declared channel satisfies its invariant (the clauses this function relies on)
    for nm, cl in INV(h, sch_get(h, sch, key), only=("len>=0", "kinds", "monotone", "boundaries-nonneg") + LRT_HYPS) + EOMWF(h, sch_get(h, sch, key)) + \
            [("valid_channel", valid_channel_f(cs_chan(sch_get(h, sch, key))))]:
        out.append((f"all-channels.{nm}", lift_over_keys(h, sch, key, cl)))
    return out


def lift_over_keys(h, sch, key, cl):
    """forall key in dom: clause(map[key])"""
    if isinstance(cl, Q):
        return Q([PStr] + list(cl.sorts),
                 (lambda cl: lambda kk, *vs: (lambda pc: (z3.And(sch_has(h, sch, kk), z3.substitute(pc[0], (key, kk))), _subst(pc[1], key, kk)))(cl.body(*vs)))(cl),
                 pats=(lambda cl: lambda kk, *vs: [_pat_subst(p, key, kk) for p in cl.pats(*vs)])(cl) if cl.pats else None)
    return Q([PStr], lambda kk: (sch_has(h, sch, kk), z3.substitute(cl, (key, kk))), pats=lambda kk: [sch_get(h, sch, kk)])


def _subst(x, key, kk):
    if isinstance(x, Al):
        return Al(z3.substitute(x.c, (key, kk)), z3.substitute(x.x, (key, kk)))
    return z3.substitute(x, (key, kk))


def _pat_subst(p, key, kk):
    if isinstance(p, (tuple, list)):
        return tuple(z3.substitute(x, (key, kk)) for x in p)
    return z3.substitute(p, (key, kk))


def fad_ensures(c):
    h, sch, chan, prot, T0 = fad_ctx(c)
    res = T(c.res)
    key = z3.Const("key!en", PStr)
    return [
        ("not-before-t0", res >= T(c.t0)),
        ("minimal", z3.Or(res == T(c.t0), caused_by_some_pulse(h, sch, chan, T0, prot, res))),
        ("no-conflict", Q([PStr, I], lambda kk, k: (z3.And(sch_has(h, sch, kk), kk != chan, most_recent_conflicting(h, sch_get(h, sch, kk), k, T0, prot)),
                                                  res >= s_tf(cs_at(h, sch_get(h, sch, kk), k)) + fall_min(h, sch_get(h, sch, kk), cs_at(h, sch_get(h, sch, kk), k))),
                          pats=lambda kk, k: [cs_at(h, sch_get(h, sch, kk), k)])),
    ]


def fad_outer_inv(c):
    h, sch, chan, prot, T0 = fad_ctx(c)
    cur = T(c.st.env["current_max_t"])
    order = T(c.st.env["__keyorder__"])
    idx = T(c.st.env["__keyidx__"])
    J = c.j
    visited = lambda kk: z3.And(sch_has(h, sch, kk), z3.Select(idx, kk) < J)
    return [
        ("not-before-t0", cur >= T(c.a["t0"])),
        ("minimal", z3.Or(cur == T(c.a["t0"]), caused_by_some_pulse(h, sch, chan, T0, prot, cur))),
        ("no-conflict-on-visited", Q([PStr, I], lambda kk, k: (z3.And(visited(kk), kk != chan, most_recent_conflicting(h, sch_get(h, sch, kk), k, T0, prot)),
                                                             cur >= s_tf(cs_at(h, sch_get(h, sch, kk), k)) + fall_min(h, sch_get(h, sch, kk), cs_at(h, sch_get(h, sch, kk), k))),
                                     pats=lambda kk, k: [cs_at(h, sch_get(h, sch, kk), k)])),
    ]


def fad_inner_inv(c):
    h, sch, chan, prot, T0 = fad_ctx(c)
    cur = T(c.st.env["current_max_t"])
    cur0 = T(c.x["pre"].env["current_max_t"])
    cs = T(c.st.env["ch_schedule"])
    n = cs_len(h, cs)
    i = c.j
    R2 = 2 * RISE(cs_chan(cs))
    at = lambda v: cs_at(h, cs, v)
    return [
        ("cur-unchanged", cur == cur0),
        ("visited-do-not-matter", Q([I], lambda v: (z3.And(n - i <= v, v < n),
                                                     z3.If(s_kind(at(v)) == PULSE,
                                                           z3.And(s_tf(at(v)) + fall_now(h, cs, at(v)) > cur, z3.Not(conflict(at(v), T0, prot))),
                                                           s_tf(at(v)) + R2 > cur)),
                                    pats=lambda v: [at(v)])),
    ]


def fad_lemmas(c):
    from pyvc.vc import Engine
    h, sch = c.old, T(c.self)
    eng = Engine(None, None, {}, [])

    def body(kk, q, k):
        cs = sch_get(h, sch, kk)
        arr, n, ch = cs_arr(h, cs), cs_len(h, cs), cs_chan(cs)
        hyps = [eng.clause_formula(cl) for _, cl in INVA(arr, n, ch, only=LRT_HYPS)]
        prem, concl = lrt_concl(arr, n, ch).body(q, k)
        return z3.And(sch_has(h, sch, kk), *hyps, prem), concl
    return [("L-first-retarget", Q([PStr, I, I], body,
                                   pats=lambda kk, q, k: [(cs_at(h, sch_get(h, sch, kk), q), cs_at(h, sch_get(h, sch, kk), k))]))]


contract(SF, "_Schedule._find_add_delay", props=("C03",), lemmas=fad_lemmas,
         params={"self": ("ref", "_Schedule"), "t0": "int", "channel": "str", "protocol": "str"}, result="int",
         requires=fad_requires,
         ensures=fad_ensures,
         loops={0: LoopSpec(fad_outer_inv), 1: LoopSpec(fad_inner_inv)},
         )


# --------------------------------------------------------------------------
# Lemma L-first-retarget (DESIGN C03): proved once over generic (arr, n, ch), used as an implication instance
# --------------------------------------------------------------------------
from pyvc.contracts import lemma  # noqa: E402
from .lib import SlotArr, uf  # noqa: E402

FIRSTDIFF = uf("FIRSTDIFF", SlotArr, I, I, I)   # least index in (q, k] whose targets differ from slot q's


def firstdiff_def(arr, q, k):
    """Conservative definition by well-ordering: if some t in (q,k] differs, FIRSTDIFF is the least such."""
    t, j = z3.Int("t!fd"), z3.Int("j!fd")
    G = FIRSTDIFF(arr, q, k)
    diff = lambda x: s_targets(z3.Select(arr, x)) != s_targets(z3.Select(arr, q))
    return [z3.ForAll([t], z3.Implies(z3.And(q < t, t <= k, diff(t)), z3.And(q < G, G <= t, diff(G))), patterns=[z3.Select(arr, t)]),
            z3.ForAll([j], z3.Implies(z3.And(q < j, j < G), z3.Not(diff(j))), patterns=[z3.Select(arr, j)])]


LRT_HYPS_ = ("len>=0", "kinds", "monotone", "contiguous", "targets-change-only-at-target-slots", "retarget-after-fall")


def lrt_concl(arr, n, ch):
    at = lambda x: z3.Select(arr, x)
    j = z3.Int("j!lrt")
    return Q([I, I], lambda q, k: (
        z3.And(0 <= q, q < k, k < n, s_kind(at(q)) == PULSE, s_kind(at(k)) == PULSE, s_targets(at(q)) != s_targets(at(k)),
               z3.ForAll([j], z3.Implies(z3.And(q < j, j < k, s_kind(at(j)) == PULSE), s_targets(at(j)) != s_targets(at(q))), patterns=[at(j)])),
        s_tf(at(q)) + FALL(s_pulse(at(q)), ch, z3.BoolVal(False)) <= s_tf(at(k))),
        pats=lambda q, k: [(at(q), at(k))])


def lrt_build():
    arr, n, ch = z3.Const("arr!L", SlotArr), z3.Int("n!L"), z3.Const("ch!L", Ref)
    hyps = INVA(arr, n, ch, only=LRT_HYPS)
    return hyps, lrt_concl(arr, n, ch), lambda q, k: firstdiff_def(arr, q, k)


lemma("L-first-retarget", lrt_build,
      "a pulse that is followed by a pulse with different targets had fully ramped down (non-EOM fall time) before that later pulse ended: "
      "the first slot with different targets is a target slot (INV targets-change-only-at-target-slots) and retargets wait for the fall (INV retarget-after-fall)")


# --------------------------------------------------------------------------
# make_next_pulse_slot (C03, C10, C07)
# --------------------------------------------------------------------------
from .lib import PJT, p_phase as _pph  # noqa: E402
from .pulse import valid_pulse  # noqa: E402


def mnps_requires(c):
    cs = S(c)
    return fad_requires(c)[:2] + fad_requires(c)[3:] + INV(c.old, cs, only=("len>=0", "monotone", "kinds", "contiguous", "clock-aligned", "pulses-are-valid")) + [
        ("valid_channel", valid_channel_f(cs_chan(cs)))] + EOMWF(c.old, cs) + [
        ("valid-pulse", valid_pulse(T(c.pulse))),
        ("pulse-duration-aligned", Al(clock(cs_chan(cs)), p_duration(T(c.pulse))))]


def seq_all(sv, f):
    j = z3.Int("j!sa")
    try:
        return z3.ForAll([j], z3.Implies(z3.And(0 <= j, j < sv.n), f(z3.Select(sv.arr, j))), patterns=[z3.Select(sv.arr, j)])
    except z3.Z3Exception:
        return z3.ForAll([j], z3.Implies(z3.And(0 <= j, j < sv.n), f(z3.Select(sv.arr, j))))


def seq_some(sv, f):
    j = z3.Int("j!ss")
    return z3.Exists([j], z3.And(0 <= j, j < sv.n, f(z3.Select(sv.arr, j))))


def mnps_ensures(c):
    h, sch, chan, prot, T0 = fad_ctx(c)
    cs = S(c)
    ch = cs_chan(cs)
    arr, n = cs_arr(h, cs), cs_len(h, cs)
    last = cs_at(h, cs, n - 1)
    t0 = s_tf(last)
    res = T(c.res)
    ti, tf = s_ti(res), s_tf(res)
    D = ti - t0
    cc, m = clock(ch), min_dur(ch)
    bts = c.phase_barrier_ts
    nodelay = prot == NO_DELAY
    drift_none = c.phase_drift_params.none
    P = z3.Select(arr, LPSI(arr, n, z3.BoolVal(True)))
    has_P = z3.Not(lps_none(arr, n, z3.BoolVal(True)))
    eom = in_eom(h, cs)
    pj_bound = s_tf(P) + z3.If(PJT(ch) >= 2 * RISE(ch) * z3.If(eom, 1, 0), PJT(ch), 2 * RISE(ch) * z3.If(eom, 1, 0)) + FALL(s_pulse(P), ch, eom)
    phase_changes = z3.Or(z3.Not(drift_none), _pph(s_pulse(P)) != _pph(T(c.pulse)))
    low = ti - cc
    lower_bounds = z3.Or(
        low < t0 + m,
        seq_some(bts, lambda b: low < z3.If(b >= t0 + m, b, t0 + m)),
        z3.And(z3.Not(nodelay), caused_by_some_pulse_lt(h, sch, chan, T0, prot, low, t0 + m)),
        z3.And(z3.Not(nodelay), has_P, phase_changes, low < z3.If(pj_bound >= t0 + m, pj_bound, t0 + m)))
    return [
        ("is-a-pulse-slot", s_kind(res) == PULSE),
        ("keeps-targets", s_targets(res) == s_targets(last)),
        ("occupies-its-duration", tf == ti + p_duration(s_pulse(res))),
        ("scheduled-pulse-is-valid", valid_pulse_(s_pulse(res))),
        ("same-waveforms", z3.And(p_duration(s_pulse(res)) == p_duration(T(c.pulse)),
                                  z3.Implies(drift_none, s_pulse(res) == T(c.pulse)))),
        ("keeps-amplitude-and-detuning", z3.And(_P_AMP(s_pulse(res)) == _P_AMP(T(c.pulse)), _P_DET(s_pulse(res)) == _P_DET(T(c.pulse)))),
        ("drift-corrected-phase", z3.Implies(z3.Not(drift_none), _pph(s_pulse(res)) == _fmt(_pph(T(c.pulse)) - _DRIFT(
            _uf("_PhaseDriftParams.drift_rate", Ref, _R)(T(c.phase_drift_params.val)), ti - _uf("_PhaseDriftParams.ti", Ref, I)(T(c.phase_drift_params.val)))))),
        ("not-before-channel-end", ti >= t0),
        ("after-phase-barriers", seq_all(bts, lambda b: ti >= b)),
        ("delay-is-zero-or-valid", z3.Or(D == 0, D >= m)),
        ("delay-is-clock-multiple", Al(cc, D)),
        ("starts-on-clock", Al(cc, ti)),
        ("ends-on-clock", Al(cc, tf)),
        ("no-delay-starts-at-end-or-barrier", z3.Implies(nodelay, z3.Or(
            ti == t0, seq_some(bts, lambda b: ti == b),
            z3.And(D > 0, z3.Or(low < t0 + m, seq_some(bts, lambda b: low < z3.If(b >= t0 + m, b, t0 + m))))))),
        ("no-delay-exact-when-barriers-passed", z3.Implies(z3.And(nodelay, seq_all(bts, lambda b: b <= t0)), ti == t0)),
        ("no-conflict", Q([PStr, I], lambda kk, k: (z3.And(z3.Not(nodelay), sch_has(h, sch, kk), kk != chan, most_recent_conflicting(h, sch_get(h, sch, kk), k, T0, prot)),
                                                  ti >= s_tf(cs_at(h, sch_get(h, sch, kk), k)) + fall_min(h, sch_get(h, sch, kk), cs_at(h, sch_get(h, sch, kk), k))),
                          pats=lambda kk, k: [cs_at(h, sch_get(h, sch, kk), k)])),
        ("phase-jump-buffer", z3.Implies(z3.And(z3.Not(nodelay), has_P, drift_none, _pph(s_pulse(P)) != _pph(T(c.pulse))), ti >= pj_bound)),
        ("earliest-allowed", z3.Or(D == 0, lower_bounds)),
        ("within-max-sequence-duration", z3.Implies(T(c.block_over_max_duration), z3.Or(sch_maxdur_none(sch), tf <= sch_maxdur(sch)))),
    ]


from .lib import fmt as _fmt  # noqa: E402
from pyvc.core import R as _R, uf as _uf  # noqa: E402
_DRIFT = uf("DRIFT", _R, I, _R)      # (same symbol as contracts/eom_seq.py: rate * dt * 1e-3, defined where calc_phase_drift is verified)
_P_AMP = lambda p: uf("Pulse.amplitude", Ref, Ref)(p)
_P_DET = lambda p: uf("Pulse.detuning", Ref, Ref)(p)


def caused_by_some_pulse_lt(h, sch, chan, T0, prot, low, floor):
    key = z3.Const("key!lt", PStr)
    k = z3.Int("k!lt2")
    cs = sch_get(h, sch, key)
    e = s_tf(cs_at(h, cs, k)) + fall_now(h, cs, cs_at(h, cs, k))
    return z3.Exists([key, k], z3.And(sch_has(h, sch, key), key != chan, 0 <= k, k < cs_len(h, cs), s_kind(cs_at(h, cs, k)) == PULSE,
                                      conflict(cs_at(h, cs, k), T0, prot), low < z3.If(e >= floor, e, floor)))


contract(SF, "_Schedule.make_next_pulse_slot", props=("C03", "C10", "C07", "C01", "C15"), lemmas=None,
         params={"self": ("ref", "_Schedule"), "pulse": ("ref", "Pulse"), "channel": "str", "phase_barrier_ts": ("list", "int"),
                 "protocol": "str", "phase_drift_params": ("opt", ("ref", "_PhaseDriftParams")), "block_over_max_duration": "bool"},
         result=("ref", "_TimeSlot"),
         requires=mnps_requires,
         ensures=mnps_ensures,
         raises={"ValueError": ("only-if", lambda c: z3.Or(cs_len(c.old, S(c)) == 0, z3.Not(max_dur_none(cs_chan(S(c)))))),
                 "RuntimeError": ("only-if", lambda c: z3.And(T(c.block_over_max_duration), z3.Not(sch_maxdur_none(T(c.self))))),
                 },
         )


# --------------------------------------------------------------------------
# add_pulse
# --------------------------------------------------------------------------
def VALIDATED(p, ch):
    """ghost: pulse p satisfies LIMITS of channel ch (produced by Sequence._validate_and_adjust_pulse / internal detuned delays)."""
    return uf("VALIDATED", Ref, Ref, z3.BoolSort())(p, ch)


def add_pulse_requires(c):
    cs = S(c)
    return writer_requires(c) + fad_requires(c)[3:] + [("valid-pulse", valid_pulse(T(c.pulse))),
                                                       ("pulse-duration-aligned", Al(clock(cs_chan(cs)), p_duration(T(c.pulse)))),
                                                       ("pulse-duration-valid", z3.And(p_duration(T(c.pulse)) >= min_dur(cs_chan(cs))))]


def add_pulse_ensures(c):
    h, sch, chan, prot, T0 = fad_ctx(c)
    cs = S(c)
    ch = cs_chan(cs)
    n0, n1 = cs_len(c.old, cs), cs_len(c.new, cs)
    last = cs_at(c.old, cs, n0 - 1)
    new = cs_at(c.new, cs, n1 - 1)
    gap = cs_at(c.new, cs, n0)
    t0 = s_tf(last)
    nodelay = prot == NO_DELAY
    return [
        ("appends-pulse-after-optional-delay", z3.Or(n1 == n0 + 1, z3.And(n1 == n0 + 2, s_ti(gap) == t0, s_tf(gap) == s_ti(new),
                                                                          z3.Or(s_kind(gap) == DELAY, z3.And(s_kind(gap) == PULSE, IS_DETUNED_DELAY(s_pulse(gap))))))),
        ("pulse-slot", z3.And(s_kind(new) == PULSE, s_tf(new) == s_ti(new) + p_duration(T(c.pulse)), s_targets(new) == s_targets(last),
                              p_duration(s_pulse(new)) == p_duration(T(c.pulse)), z3.Implies(c.phase_drift_params.none, s_pulse(new) == T(c.pulse)))),
        ("keeps-amplitude-and-detuning", z3.And(_P_AMP(s_pulse(new)) == _P_AMP(T(c.pulse)), _P_DET(s_pulse(new)) == _P_DET(T(c.pulse)))),
        ("drift-corrected-phase", z3.Implies(z3.Not(c.phase_drift_params.none), _pph(s_pulse(new)) == _fmt(_pph(T(c.pulse)) - _DRIFT(
            _uf("_PhaseDriftParams.drift_rate", Ref, _R)(T(c.phase_drift_params.val)), s_ti(new) - _uf("_PhaseDriftParams.ti", Ref, I)(T(c.phase_drift_params.val)))))),
        ("no-gap", z3.Implies(n1 == n0 + 1, s_ti(new) == t0)),
        ("no-delay-appends-just-the-pulse", z3.Implies(z3.And(nodelay, seq_all(c.phase_barrier_ts, lambda b: b <= t0)), n1 == n0 + 1)),
        ("after-phase-barriers", seq_all(c.phase_barrier_ts, lambda b: s_ti(new) >= b)),
        ("no-conflict", Q([PStr, I], lambda kk, k: (z3.And(z3.Not(nodelay), sch_has(h, sch, kk), kk != chan, most_recent_conflicting(h, sch_get(h, sch, kk), k, T0, prot)),
                                                  s_ti(new) >= s_tf(cs_at(h, sch_get(h, sch, kk), k)) + fall_min(h, sch_get(h, sch, kk), cs_at(h, sch_get(h, sch, kk), k))),
                          pats=lambda kk, k: [cs_at(h, sch_get(h, sch, kk), k)])),
        ("within-max-sequence-duration", MAXD(c.new, T(c.self), cs)),
    ] + prefix(c, cs) + [(f"INV.{nm}", cl) for nm, cl in INV(c.new, cs, split=[n1 - 1])]


contract(SF, "_Schedule.add_pulse", props=("C01", "C02", "C03", "C07", "C09", "C10", "C15"),
         params={"self": ("ref", "_Schedule"), "pulse": ("ref", "Pulse"), "channel": "str", "phase_barrier_ts": ("list", "int"),
                 "protocol": "str", "phase_drift_params": ("opt", ("ref", "_PhaseDriftParams"))},
         requires=add_pulse_requires,
         ensures=add_pulse_ensures,
         raises={"ValueError": ("only-if", lambda c: z3.Or(cs_len(c.old, S(c)) == 0, z3.Not(max_dur_none(cs_chan(S(c)))))),
                 "RuntimeError": ("only-if", lambda c: z3.Not(sch_maxdur_none(T(c.self))))},
         modifies={SLOTS: lambda c: [S(c)]},
         exc_safe=True,
         )


# --------------------------------------------------------------------------
# add_target (C10, C02)
# --------------------------------------------------------------------------
def no_pending_fall(h, cs):
    """the most recent pulse (if any) has ramped down: wait_for_fall inserts nothing"""
    arr, n = cs_arr(h, cs), cs_len(h, cs)
    f = z3.BoolVal(False)
    L = LPSI(arr, n, f)
    return z3.Or(n == 0, lps_none(arr, n, f), s_tf(z3.Select(arr, L)) + FALL(s_pulse(z3.Select(arr, L)), cs_chan(cs), in_eom(h, cs)) <= s_tf(z3.Select(arr, n - 1)))


def add_target_requires(c):
    cs = S(c)
    return writer_requires(c) + [
        ("retarget-only-on-local-outside-eom", z3.Implies(cs_len(c.old, cs) >= 1,
                                                          z3.And(fget("Channel", "addressing", cs_chan(cs)) == LOCAL, z3.Not(in_eom(c.old, cs)))))]


def add_target_ensures(c):
    cs = S(c)
    ch = cs_chan(cs)
    n0, n1 = cs_len(c.old, cs), cs_len(c.new, cs)
    qs = T(c.qubits_set)
    new = cs_at(c.new, cs, n1 - 1)
    last_old = cs_at(c.old, cs, n0 - 1)
    same = s_targets(last_old) == qs
    is_new_target = z3.And(s_kind(new) == TARGET, s_targets(new) == qs)
    return [
        ("first-target", z3.Implies(n0 == 0, z3.And(n1 == 1, is_new_target, s_ti(new) == -1, s_tf(new) == 0))),
        ("retarget-appends-target-slot", z3.Implies(z3.And(n0 >= 1, z3.Not(same)),
                                                    z3.And(n1 >= n0 + 1, n1 <= n0 + 2, is_new_target, s_ti(new) == s_tf(cs_at(c.new, cs, n1 - 2))))),
        ("same-targets-inserts-nothing", z3.Implies(z3.And(n0 >= 1, same), n1 == n0)),
        ("same-targets-adds-no-target-slot", z3.Implies(z3.And(n0 >= 1, same), z3.And(n1 <= n0 + 1, z3.Implies(n1 == n0 + 1, s_kind(new) != TARGET)))),
        ("within-max-sequence-duration", MAXD(c.new, T(c.self), cs)),
    ] + prefix(c, cs) + [(f"INV.{nm}", cl) for nm, cl in INV(c.new, cs, split=[n1 - 1])]


contract(SF, "_Schedule.add_target", props=("C02", "C10", "C09"),
         params={"self": ("ref", "_Schedule"), "qubits_set": "qset", "channel": "str"},
         requires=add_target_requires,
         ensures=add_target_ensures,
         raises={"ValueError": ("only-if", lambda c: z3.Not(max_dur_none(cs_chan(S(c))))),
                 "RuntimeError": ("only-if", lambda c: z3.Not(sch_maxdur_none(T(c.self))))},
         modifies={SLOTS: lambda c: [S(c)]},
         exc_safe=True,
         exc_safe_if=lambda c: no_pending_fall(c.old, S(c)),
         )


# --------------------------------------------------------------------------
# _Schedule.get_duration
# --------------------------------------------------------------------------
def sgd_ensures(c):
    h, sch = c.old, T(c.self)
    res = T(c.res)
    inc = T(c.include_fall_time)
    ch = c.channel
    key = z3.Const("key!sgd", PStr)
    cs1 = sch_get(h, sch, T(ch.val))
    end = lambda cs: z3.If(cs_len(h, cs) == 0, 0, s_tf(cs_at(h, cs, cs_len(h, cs) - 1)))
    out = [(f"single-channel.{nm}", z3.Implies(z3.Not(ch.none), cl) if not isinstance(cl, Q) else
            Q(cl.sorts, (lambda cl: lambda *vs: (lambda pc: (z3.And(z3.Not(ch.none), pc[0]), pc[1]))(cl.body(*vs)))(cl), pats=cl.pats))
           for nm, cl in gd_post(h, cs1, inc, res)]
    return out + [
        ("all-channels.at-least-every-end", z3.Implies(ch.none, z3.ForAll([key], z3.Implies(sch_has(h, sch, key), res >= end(sch_get(h, sch, key))), patterns=[sch_get(h, sch, key)]))),
        ("all-channels.plain-is-some-end", z3.Implies(z3.And(ch.none, z3.Not(inc), res != 0), z3.Exists([key], z3.And(sch_has(h, sch, key), res == end(sch_get(h, sch, key)))))),
        ("nonneg", res >= 0),
    ]


def all_channels_requires(c, only):
    return all_channels_requires_h(c.old, T(c.self), only)


def all_channels_requires_h(h, sch, only):
    key = z3.Const("key!acr", PStr)
    out = []
    for nm, cl in INV(h, sch_get(h, sch, key), only=only) + EOMWF(h, sch_get(h, sch, key)) + [("valid_channel", valid_channel_f(cs_chan(sch_get(h, sch, key))))]:
        out.append((f"all-channels.{nm}", lift_over_keys(h, sch, key, cl)))
    return out


contract(SF, "_Schedule.get_duration", props=("C02",),
         params={"self": ("ref", "_Schedule"), "channel": ("opt", "str"), "include_fall_time": "bool"}, result="int",
         requires=lambda c: all_channels_requires(c, ("len>=0", "monotone", "kinds", "boundaries-nonneg")),
         ensures=sgd_ensures,
         raises={"KeyError": lambda c: z3.And(z3.Not(c.channel.none), z3.Not(sch_has(c.old, T(c.self), T(c.channel.val))))},
         )


# --------------------------------------------------------------------------
# EOM blocks (C15)
# --------------------------------------------------------------------------
from .lib import eb_ti, eb_tf  # noqa: E402
from .channels import EOMBUF  # noqa: E402
from pyvc.core import uf as _uf, R as _R  # noqa: E402

EBLOCKS = "_ChannelSchedule.eom_blocks"
eb_rabi = lambda b: _uf("_EOMSettings.rabi_freq", Ref, _R)(b)
eb_don = lambda b: _uf("_EOMSettings.detuning_on", Ref, _R)(b)


def EOMINV(h, cs, split=None):
    """INV.9 (structure): only the last block may be open; blocks are ordered; block refs are distinct and allocated."""
    n = eb_len(h, cs)
    at = lambda i: eb_at(h, cs, i)
    alloc = h.get("$alloc")
    sp = split or []
    return EOMWF(h, cs) + [
        ("eom.closed-before-last", Q([I], lambda i: (z3.And(0 <= i, i < n - 1), z3.And(z3.Not(eb_tf_none(h, at(i))), eb_tf(h, at(i)) <= eb_ti(at(i + 1)))),
                                     pats=lambda i: [at(i)], split=sp)),
        ("eom.well-ordered", Q([I], lambda i: (z3.And(0 <= i, i < n), z3.And(eb_ti(at(i)) >= 0, z3.Or(eb_tf_none(h, at(i)), eb_ti(at(i)) <= eb_tf(h, at(i))))),
                               pats=lambda i: [at(i)], split=sp)),
        ("eom.closed-within-timeline", Q([I], lambda i: (z3.And(0 <= i, i < n, z3.Not(eb_tf_none(h, at(i)))),
                                                         z3.And(cs_len(h, cs) >= 1, eb_tf(h, at(i)) <= s_tf(cs_at(h, cs, cs_len(h, cs) - 1)))),
                                         pats=lambda i: [at(i)], split=sp)),
        ("eom.open-within-timeline", Q([I], lambda i: (z3.And(0 <= i, i < n, eb_tf_none(h, at(i))),
                                                       z3.And(cs_len(h, cs) >= 1, eb_ti(at(i)) <= s_tf(cs_at(h, cs, cs_len(h, cs) - 1)))),
                                       pats=lambda i: [at(i)], split=sp)),
        ("eom.blocks-allocated", Q([I], lambda i: (z3.And(0 <= i, i < n), z3.Select(alloc, at(i))), pats=lambda i: [at(i)], split=sp)),
        ("eom.blocks-distinct", Q([I, I], lambda i, j: (z3.And(0 <= j, j < i, i < n), at(i) != at(j)), pats=lambda i, j: [(at(i), at(j))], split=sp)),
    ]


def enable_eom_requires(c):
    cs = S(c)
    return writer_requires(c) + all_channels_requires(c, ("len>=0", "kinds", "monotone", "boundaries-nonneg") + LRT_HYPS)[0:0] + fad_requires(c)[3:] + EOMINV(c.old, cs) + [
        ("supports-eom", z3.Not(fnone("Channel", "eom_config", cs_chan(cs)))),
        ("has-target", cs_len(c.old, cs) >= 1),
        ("not-in-eom", z3.Not(in_eom(c.old, cs))),
        ("valid-setpoint", T(c.amp_on) >= 0)]


def enable_eom_ensures(c):
    cs = S(c)
    ch = cs_chan(cs)
    n0, n1 = cs_len(c.old, cs), cs_len(c.new, cs)
    e0, e1 = eb_len(c.old, cs), eb_len(c.new, cs)
    blk = eb_at(c.new, cs, e0)
    last0 = cs_at(c.old, cs, n0 - 1)
    last1 = cs_at(c.new, cs, n1 - 1)
    buf = s_tf(last1) - s_ti(last1)
    no_buffer = z3.Or(T(c._skip_buffer), s_tf(last0) == 0)
    det_off = T(c.detuning_off)
    return [
        ("appends-one-open-block", z3.And(e1 == e0 + 1, eb_tf_none(c.new, blk), eb_ti(blk) == s_tf(last1))),
        ("block-stores-the-setpoint", z3.And(eb_rabi(blk) == T(c.amp_on), eb_don(blk) == T(c.detuning_on), eb_det_off(blk) == det_off)),
        ("earlier-blocks-kept", Q([I], lambda i: (z3.And(0 <= i, i < e0), eb_at(c.new, cs, i) == eb_at(c.old, cs, i)), pats=lambda i: [eb_at(c.new, cs, i)])),
        ("in-eom-mode-afterwards", in_eom(c.new, cs)),
        ("last-slot-keeps-the-targets", s_targets(last1) == s_targets(last0)),
        ("no-buffer-when-skipped-or-empty", z3.Implies(no_buffer, n1 == n0)),
        ("buffer-of-configured-length", z3.Implies(z3.Not(no_buffer), z3.And(
            n1 >= n0 + 1, n1 <= n0 + 2, s_ti(last1) == s_tf(cs_at(c.new, cs, n1 - 2)), buf >= EOMBUF(ch), buf >= min_dur(ch), buf < z3.If(EOMBUF(ch) >= min_dur(ch), EOMBUF(ch), min_dur(ch)) + clock(ch),
            z3.If(det_off != 0, z3.And(s_kind(last1) == PULSE, IS_DETUNED_DELAY(s_pulse(last1)), CONST_DET(s_pulse(last1)) == det_off), s_kind(last1) == DELAY)))),
        ("buffer-after-fall", z3.Implies(z3.And(z3.Not(no_buffer), z3.Not(T(c._skip_wait_for_fall))), at_rest_before_last(c, cs))),
        ("no-fall-wait-when-skipped", z3.Implies(z3.And(z3.Not(no_buffer), T(c._skip_wait_for_fall)), n1 == n0 + 1)),
        ("within-max-sequence-duration", MAXD(c.new, T(c.self), cs)),
    ] + prefix(c, cs) + [(f"INV.{nm}", cl) for nm, cl in INV(c.new, cs)] + [(f"EOMINV.{nm}", cl) for nm, cl in EOMINV(c.new, cs, split=[e0])]


def at_rest_before_last(c, cs):
    """the buffer (last new slot) starts after the most recent old pulse has ramped down."""
    arr0, n0 = cs_arr(c.old, cs), cs_len(c.old, cs)
    n1 = cs_len(c.new, cs)
    L = LPSI(arr0, n0, z3.BoolVal(False))
    return z3.Implies(z3.Not(lps_none(arr0, n0, z3.BoolVal(False))),
                      s_ti(cs_at(c.new, cs, n1 - 1)) >= s_tf(z3.Select(arr0, L)) + FALL(s_pulse(z3.Select(arr0, L)), cs_chan(cs), in_eom(c.old, cs)))


from .pulse import CONST_DET  # noqa: E402

contract(SF, "_Schedule.enable_eom", props=("C15", "C02"),
         params={"self": ("ref", "_Schedule"), "channel_id": "str", "amp_on": "real", "detuning_on": "real", "detuning_off": "real",
                 "switching_beams": "opaque", "_skip_buffer": "bool", "_skip_wait_for_fall": "bool"},
         requires=enable_eom_requires,
         ensures=enable_eom_ensures,
         spec_defs=lambda c: [lpsi_def(cs_arr(c.old, S(c)), cs_len(c.old, S(c)), z3.BoolVal(False))],
         raises={"ValueError": ("only-if", lambda c: z3.Not(max_dur_none(cs_chan(S(c))))),
                 "RuntimeError": ("only-if", lambda c: z3.Not(sch_maxdur_none(T(c.self))))},
         modifies={SLOTS: lambda c: [S(c)], EBLOCKS: lambda c: [S(c)], "$alloc": None},
         exc_safe=False,   # multi-step mutator (fall delay, buffer, block): not exception safe, see DESIGN section 5 item 10
         )


def disable_eom_requires(c):
    cs = S(c)
    return writer_requires(c) + EOMINV(c.old, cs) + [("in-eom", in_eom(c.old, cs)), ("has-target", cs_len(c.old, cs) >= 1)]


def disable_eom_ensures(c):
    cs = S(c)
    ch = cs_chan(cs)
    n0, n1 = cs_len(c.old, cs), cs_len(c.new, cs)
    e0 = eb_len(c.old, cs)
    blk = eb_at(c.old, cs, e0 - 1)
    last0 = cs_at(c.old, cs, n0 - 1)
    last1 = cs_at(c.new, cs, n1 - 1)
    eom = fget("Channel", "eom_config", ch)
    custom = z3.And(z3.Not(fnone("BaseEOM", "custom_buffer_time", eom)), fget("BaseEOM", "custom_buffer_time", eom) != 0)
    buf = s_tf(last1) - s_ti(last1)
    arr0 = cs_arr(c.old, cs)
    L = LPSI(arr0, n0, z3.BoolVal(False))
    return [
        ("same-blocks", z3.And(eb_len(c.new, cs) == e0, Q([I], lambda i: (z3.And(0 <= i, i < e0), eb_at(c.new, cs, i) == eb_at(c.old, cs, i)), pats=lambda i: [eb_at(c.new, cs, i)]) if False else eb_len(c.new, cs) == e0)),
        ("blocks-kept", Q([I], lambda i: (z3.And(0 <= i, i < e0), eb_at(c.new, cs, i) == eb_at(c.old, cs, i)), pats=lambda i: [eb_at(c.new, cs, i)])),
        ("closes-last-block-at-channel-end", z3.And(z3.Not(eb_tf_none(c.new, blk)), eb_tf(c.new, blk) == s_tf(last0))),
        ("not-in-eom-afterwards", z3.Not(in_eom(c.new, cs))),
        ("last-slot-keeps-the-targets", s_targets(last1) == s_targets(last0)),
        ("no-buffer-when-skipped", z3.Implies(T(c._skip_buffer), n1 == n0)),
        ("appended-slots-are-no-real-pulses", Q([I], lambda k: (z3.And(n0 <= k, k < n1), z3.Not(lps_match(cs_arr(c.new, cs), k, z3.BoolVal(True)))), pats=lambda k: [cs_at(c.new, cs, k)])),
        ("custom-buffer", z3.Implies(z3.And(z3.Not(T(c._skip_buffer)), custom), z3.And(
            n1 == n0 + 1, s_kind(last1) == DELAY, buf >= EOMBUF(ch), buf >= min_dur(ch), buf < z3.If(EOMBUF(ch) >= min_dur(ch), EOMBUF(ch), min_dur(ch)) + clock(ch)))),
        ("default-waits-for-fall", z3.Implies(z3.And(z3.Not(T(c._skip_buffer)), z3.Not(custom), z3.Not(lps_none(arr0, n0, z3.BoolVal(False)))),
                                              s_tf(last1) >= s_tf(z3.Select(arr0, L)) + FALL(s_pulse(z3.Select(arr0, L)), ch, z3.BoolVal(False)))),
        ("within-max-sequence-duration", MAXD(c.new, T(c.self), cs)),
    ] + prefix(c, cs) + [(f"INV.{nm}", cl) for nm, cl in INV(c.new, cs)] + [(f"EOMINV.{nm}", cl) for nm, cl in EOMINV(c.new, cs)]


contract(SF, "_Schedule.disable_eom", props=("C15", "C02"),
         params={"self": ("ref", "_Schedule"), "channel_id": "str", "_skip_buffer": "bool"},
         requires=disable_eom_requires,
         ensures=disable_eom_ensures,
         spec_defs=lambda c: [lpsi_def(cs_arr(c.old, S(c)), cs_len(c.old, S(c)), z3.BoolVal(False))],
         raises={"ValueError": ("only-if", lambda c: z3.Not(max_dur_none(cs_chan(S(c))))),
                 "RuntimeError": ("only-if", lambda c: z3.Not(sch_maxdur_none(T(c.self))))},
         modifies={SLOTS: lambda c: (lambda r: z3.And(r == S(c), z3.Not(T(c._skip_buffer)))),     # (no slot is written when the buffer is skipped)
                   "_EOMSettings.tf": lambda c: [eb_at(c.old, S(c), eb_len(c.old, S(c)) - 1)]},
         exc_safe=False,
         )
