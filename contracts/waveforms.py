"""C16: waveforms and pulses honour their defining contracts (integer / algebraic core)."""
import z3

from pyvc.contracts import LoopSpec, Q, contract, inline
from pyvc.core import B, I, R, Ref, isinstance_term, uf
from .lib import T, WDUR, axiom
from .limits import WSAMP, samp

WF = "pulser-core/pulser/waveforms.py"
DUR = lambda w: uf("Waveform._duration", Ref, I)(w)
CVAL = lambda w: uf("ConstantWaveform._value", Ref, R)(w)
RSTART = lambda w: uf("RampWaveform._start", Ref, R)(w)
RSTOP = lambda w: uf("RampWaveform._stop", Ref, R)(w)

SIMPLE = ("ConstantWaveform", "RampWaveform", "BlackmanWaveform", "KaiserWaveform", "InterpolatedWaveform", "CustomWaveform")


def wdur_def(w):
    """definition of the abstract duration for the classes that store `_duration`"""
    return z3.Implies(z3.Or(*[isinstance_term(w, c) for c in SIMPLE]), WDUR(w) == DUR(w))


inline(WF, "_cast_check")

contract(WF, "Waveform.__init__", props=("C16",),
         params={"self": ("ref", "Waveform"), "duration": "int"},
         raises={"ValueError": lambda c: T(c.duration) <= 0},
         ensures=lambda c: [("stores-positive-duration", z3.And(DUR(T(c.self)) == T(c.duration), DUR(T(c.self)) >= 1))])

contract(WF, "Waveform._check_index", props=("C16",),
         params={"self": ("ref", "Waveform"), "i": "int"}, result="int",
         raises={"IndexError": lambda c: z3.Or(T(c.i) < -WDUR(T(c.self)), T(c.i) >= WDUR(T(c.self)))},
         ensures=lambda c: [("normalised-index", z3.And(0 <= T(c.res), T(c.res) < WDUR(T(c.self)),
                                                        z3.Or(T(c.res) == T(c.i), T(c.res) == T(c.i) + WDUR(T(c.self)))))])


def norm(n, x):
    """Python's normalisation of one slice bound for step 1: None handled by the caller; negative counts from the end; clamp to [0, n]"""
    y = z3.If(x.val.t < 0, x.val.t + n, x.val.t)
    return z3.If(y < 0, 0, z3.If(y > n, n, y))


def slice_ensures(c):
    n = WDUR(T(c.self))
    s, r = c.s, c.res
    lo = z3.If(s.start.none, 0, norm(n, s.start))
    hi = z3.If(s.stop.none, n, norm(n, s.stop))
    tt = lambda v: v.val.t if hasattr(v, "none") else T(v)
    rs, re = tt(r.start), tt(r.stop)
    k = z3.Int("k!sl")
    return [
        ("in-range", z3.And(0 <= rs, rs <= re, re <= n)),
        ("selects-what-python-selects", z3.ForAll([k], z3.And(rs <= k, k < re) == z3.And(lo <= k, k < hi))),
        ("step-dropped", r.step is None),
    ]


contract(WF, "Waveform._check_slice", props=("C16",),
         params={"self": ("ref", "Waveform"), "s": "slice"}, result=None,
         requires=lambda c: [("positive-duration", WDUR(T(c.self)) >= 1)],
         raises={"IndexError": lambda c: z3.And(z3.Not(c.s.step.none), c.s.step.val.t != 1)},
         ensures=slice_ensures)

# ---- durations of the concrete classes against the abstract contract -----------------------
for cls in ("ConstantWaveform", "RampWaveform", "BlackmanWaveform"):
    contract(WF, f"{cls}.duration", props=("C16",),
             params={"self": ("ref", cls)}, result="int",
             requires=lambda c: [("constructed", DUR(T(c.self)) >= 1)],
             spec_defs=lambda c: [wdur_def(T(c.self))],
             ensures=lambda c: [("is_WDUR", T(c.res) == WDUR(T(c.self))), ("positive", T(c.res) >= 1)])

CSUM = uf("CSUM", z3.ArraySort(I, Ref), I, I)     # sum of the durations of the first k components


def csum_def(arr):
    k = z3.Int("k!cs")
    return z3.And(CSUM(arr, 0) == 0, z3.ForAll([k], z3.Implies(k >= 0, CSUM(arr, k + 1) == CSUM(arr, k) + WDUR(z3.Select(arr, k))), patterns=[CSUM(arr, k + 1)]))


CW_LEN = lambda w: uf("CompositeWaveform._waveforms.len", Ref, I)(w)
CW_ARR = lambda w: uf("CompositeWaveform._waveforms.at", Ref, z3.ArraySort(I, Ref))(w)

contract(WF, "CompositeWaveform.duration", props=("C16",),
         params={"self": ("ref", "CompositeWaveform")}, result="int",
         requires=lambda c: [("components", CW_LEN(T(c.self)) >= 2)],
         spec_defs=lambda c: [csum_def(CW_ARR(T(c.self)))],
         ensures=lambda c: [("sum-of-component-durations", T(c.res) == CSUM(CW_ARR(T(c.self)), CW_LEN(T(c.self))))],
         loops={0: LoopSpec(lambda c: [("partial-sum", T(c.st.env["duration"]) == CSUM(CW_ARR(T(c.a["self"])), c.j))])})

# ---- ConstantWaveform / RampWaveform --------------------------------------------------------
contract(WF, "ConstantWaveform.__init__", props=("C16",),
         params={"self": ("ref", "ConstantWaveform"), "duration": "int", "value": "real"},
         raises={"ValueError": lambda c: T(c.duration) <= 0},
         spec_defs=lambda c: [wdur_def(T(c.self))],
         ensures=lambda c: [("stores-duration-and-value", z3.And(DUR(T(c.self)) == T(c.duration), CVAL(T(c.self)) == T(c.value))),
                            ("abstract-duration", WDUR(T(c.self)) == T(c.duration))])


def const_samples_def(w):
    i = z3.Int("i!cd")
    return z3.ForAll([i], z3.Implies(z3.And(0 <= i, i < DUR(w)), samp(w, i) == CVAL(w)), patterns=[samp(w, i)])


contract(WF, "ConstantWaveform._samples", props=("C16",),
         params={"self": ("ref", "ConstantWaveform")}, result=("list", "real"),
         requires=lambda c: [("constructed", DUR(T(c.self)) >= 1)],
         spec_defs=lambda c: [wdur_def(T(c.self))],
         ensures=lambda c: (lambda i: [("exactly-duration-samples", c.res.n == WDUR(T(c.self))),
                                       ("every-sample-is-the-value", z3.ForAll([i], z3.Implies(z3.And(0 <= i, i < c.res.n), z3.Select(c.res.arr, i) == CVAL(T(c.self)))))])(z3.Int("i!cs")))


def ramp_requires(c):
    return [("constructed", DUR(T(c.self)) >= 1)]


contract(WF, "RampWaveform._slope", props=("C16",),
         params={"self": ("ref", "RampWaveform")}, result="real",
         requires=ramp_requires,
         ensures=lambda c: [("slope", T(c.res) * (z3.ToReal(DUR(T(c.self))) - 1) == RSTOP(T(c.self)) - RSTART(T(c.self)))])

contract(WF, "RampWaveform._samples", props=("C16",),
         params={"self": ("ref", "RampWaveform")}, result=("list", "real"),
         requires=lambda c: ramp_requires(c) + [("at-least-two-samples", DUR(T(c.self)) >= 2)],
         spec_defs=lambda c: [wdur_def(T(c.self))],
         ensures=lambda c: (lambda i, w: [
             ("exactly-duration-samples", c.res.n == DUR(w)),
             ("first-is-start", z3.Select(c.res.arr, 0) == RSTART(w)),
             ("last-is-stop", z3.Select(c.res.arr, DUR(w) - 1) == RSTOP(w)),
             ("within-the-end-points", z3.ForAll([i], z3.Implies(z3.And(0 <= i, i < c.res.n), z3.And(
                 z3.Select(c.res.arr, i) >= z3.If(RSTART(w) <= RSTOP(w), RSTART(w), RSTOP(w)),
                 z3.Select(c.res.arr, i) <= z3.If(RSTART(w) <= RSTOP(w), RSTOP(w), RSTART(w)))))),
         ])(z3.Int("i!rs"), T(c.self)))

contract(WF, "RampWaveform.__init__", props=("C16",),
         params={"self": ("ref", "RampWaveform"), "duration": "int", "start": "real", "stop": "real"},
         raises={"ValueError": lambda c: T(c.duration) <= 0},
         ensures=lambda c: [("stores-parameters", z3.And(DUR(T(c.self)) == T(c.duration), RSTART(T(c.self)) == T(c.start), RSTOP(T(c.self)) == T(c.stop)))])

contract(WF, "ConstantWaveform.change_duration", props=("C16", "C01"),
         params={"self": ("ref", "ConstantWaveform"), "new_duration": "int"}, result=("ref", "ConstantWaveform"),
         raises={"ValueError": lambda c: T(c.new_duration) <= 0},
         ensures=lambda c: [("new-duration-same-value", z3.And(DUR(T(c.res)) == T(c.new_duration), CVAL(T(c.res)) == CVAL(T(c.self)))),
                            ("still-a-constant-waveform", isinstance_term(T(c.res), "ConstantWaveform"))])

contract(WF, "RampWaveform.change_duration", props=("C16", "C01"),
         params={"self": ("ref", "RampWaveform"), "new_duration": "int"}, result=("ref", "RampWaveform"),
         raises={"ValueError": lambda c: T(c.new_duration) <= 0},
         ensures=lambda c: [("new-duration-same-end-points", z3.And(DUR(T(c.res)) == T(c.new_duration), RSTART(T(c.res)) == RSTART(T(c.self)), RSTOP(T(c.res)) == RSTOP(T(c.self))))])

contract(WF, "ConstantWaveform.__mul__", props=("C16",),
         params={"self": ("ref", "ConstantWaveform"), "other": "real"}, result=("ref", "ConstantWaveform"),
         requires=lambda c: [("constructed", DUR(T(c.self)) >= 1)],
         ensures=lambda c: [("scales-the-value", z3.And(DUR(T(c.res)) == DUR(T(c.self)), CVAL(T(c.res)) == CVAL(T(c.self)) * T(c.other)))])

contract(WF, "RampWaveform.__mul__", props=("C16",),
         params={"self": ("ref", "RampWaveform"), "other": "real"}, result=("ref", "RampWaveform"),
         requires=lambda c: [("constructed", DUR(T(c.self)) >= 1)],
         ensures=lambda c: [("scales-the-end-points", z3.And(DUR(T(c.res)) == DUR(T(c.self)), RSTART(T(c.res)) == RSTART(T(c.self)) * T(c.other),
                                                            RSTOP(T(c.res)) == RSTOP(T(c.self)) * T(c.other)))])


# ---- abstract `_samples` and the link to WSAMP ------------------------------------------------
contract(WF, "Waveform._samples", props=("C16", "C06"), trusted=True,
         note="abstract cached property: interface contract (WSAMP *is* what _samples returns); each concrete class's _samples is verified against its own value clause",
         params={"self": ("ref", "Waveform")}, result=("list", "real"),
         ensures=lambda c: [("length-is-duration", c.res.n == WDUR(T(c.self))), ("is-WSAMP", c.res.arr == WSAMP(T(c.self)))])

_w = z3.Const("w!cs", Ref)
_i = z3.Int("i!cs2")
axiom("W-CONST-SAMPLES", z3.ForAll([_w, _i], z3.Implies(z3.And(isinstance_term(_w, "ConstantWaveform"), 0 <= _i, _i < WDUR(_w)), samp(_w, _i) == CVAL(_w)), patterns=[samp(_w, _i)]),
      "WSAMP of a ConstantWaveform: the verified contract of ConstantWaveform._samples (every sample is the value) read through the interface contract of _samples")
axiom("W-DUR-DEF", z3.ForAll([_w], wdur_def(_w), patterns=[WDUR(_w)]),
      "the abstract duration of the classes that store _duration is that field (each class's `duration` property is verified against it)")

inline(WF, "Waveform.__getitem__")
