"""Contracts for pulser-core/pulser/sequence/sequence.py (scheduling part; DESIGN appendix A.4)."""
import z3

from pyvc.contracts import Al, LoopSpec, Q, QF, contract, inline
from pyvc.core import B, I, PStr, Qid, R, Ref, str_const, uf
from pyvc.models import DECL_DOM, DECL_MAP
from .lib import (DELAY, LOCAL, PULSE, TARGET, T, WDUR, clock, cs_arr, cs_at, cs_chan, cs_len, fget, fnone, in_eom, max_dur, max_dur_none,
                  min_dur, p_duration, p_phase, s_kind, s_pulse, s_targets, s_tf, s_ti, sch_dom, sch_get, sch_has, sch_map, valid_channel_f, PI)
from .pulse import P_AMP, P_DET, P_PPS, valid_pulse
from .channels import VDUR
from .limits import LIMITS, amp_ok, avg_ok, det_ok, dmm_ok, valid_map, W_ARR, W_LEN
from .basis_ref import QRINV, fmt, last_phase, last_time, q_last, q_phase
from . import schedule as SC

SQ = "pulser-core/pulser/sequence/sequence.py"


def SCH(c):
    return uf("Sequence._schedule", Ref, Ref)(T(c.self))


def building(h, seq):
    return h.read("Sequence._building", seq)


def CS(c, ch=None, heap=None):
    return sch_get(heap or c.old, SCH(c), T(ch if ch is not None else c.channel))


inline(SQ, "Sequence.is_parametrized")
inline(SQ, "Sequence._last")
inline(SQ, "Sequence._in_ising")

contract(SQ, "Sequence.declared_channels", props=("C13",), trusted=True,
         note="dict comprehension over the schedule plus a scan of the deferred calls; contract states the built (non-parametrized) case exactly: the declared channels are the schedule's keys with their channel objects",
         params={"self": ("ref", "Sequence")}, result=("ref", "_DeclMap"),
         ensures=lambda c: (lambda k: [
             ("built-case-is-the-schedule", z3.Implies(building(c.old, T(c.self)), z3.ForAll([k], z3.And(
                 z3.Select(DECL_DOM(T(c.res)), k) == sch_has(c.old, SCH(c), k),
                 z3.Implies(sch_has(c.old, SCH(c), k), z3.Select(DECL_MAP(T(c.res)), k) == cs_chan(sch_get(c.old, SCH(c), k)))), patterns=[z3.Select(DECL_DOM(T(c.res)), k)]))),
             ("schedule-is-always-included", z3.ForAll([k], z3.Implies(sch_has(c.old, SCH(c), k), z3.Select(DECL_DOM(T(c.res)), k)), patterns=[z3.Select(DECL_DOM(T(c.res)), k)])),
         ])(z3.Const("k!dc", PStr)))

# parametrized sequences keep an empty timeline-independent answer: only the built case is specified
IS_EOM_P = uf("IS_EOM_PARAM", Ref, PStr, B)    # is_in_eom_mode for a parametrized sequence (function of the stored calls; unspecified here)

contract(SQ, "Sequence.is_in_eom_mode", props=("C13", "C15"),
         requires=lambda c: [("built", building(c.old, T(c.self))),
                             ("eom-blocks-wf", z3.Implies(sch_has(c.old, SCH(c), T(c.channel)), SC.eb_len(c.old, CS(c)) >= 0))],
         params={"self": ("ref", "Sequence"), "channel": "str"}, result="bool",
         raises={"ValueError": lambda c: z3.And(building(c.old, T(c.self)), z3.Not(sch_has(c.old, SCH(c), T(c.channel)))),
                 },
         may_raise=(),
         ensures=lambda c: [("built-case", z3.Implies(building(c.old, T(c.self)), T(c.res) == in_eom(c.old, CS(c)))),
                            ("parametrized-case", z3.Implies(z3.Not(building(c.old, T(c.self))), T(c.res) == IS_EOM_P(T(c.self), T(c.channel))))])


def slm_waiting(c):
    """channel == self._slm_mask_dmm and that DMM schedule is waiting for its first pulse"""
    h, seq = c.old, T(c.self)
    dn, d = h.read("Sequence._slm_mask_dmm?", seq), h.read("Sequence._slm_mask_dmm", seq)
    return z3.And(z3.Not(dn), d == T(c.channel), h.read("_DMMSchedule._waiting_for_first_pulse", sch_get(h, SCH(c), d)))


contract(SQ, "Sequence._validate_channel", props=("C13",),
         params={"self": ("ref", "Sequence"), "channel": "str", "block_eom_mode": "bool", "block_if_slm": "bool"},
         requires=lambda c: [("built", building(c.old, T(c.self))),
                             ("eom-blocks-wf", z3.Implies(sch_has(c.old, SCH(c), T(c.channel)), SC.eb_len(c.old, CS(c)) >= 0))],
         raises={"ValueError": lambda c: z3.Or(z3.Not(sch_has(c.old, SCH(c), T(c.channel))),
                                               z3.And(T(c.block_if_slm), slm_waiting(c), z3.Not(z3.And(T(c.block_eom_mode), in_eom(c.old, CS(c)))))),
                 "RuntimeError": lambda c: z3.And(sch_has(c.old, SCH(c), T(c.channel)), T(c.block_eom_mode), in_eom(c.old, CS(c)))},
         ensures=lambda c: [("declared", sch_has(c.old, SCH(c), T(c.channel))),
                            ("not-in-eom-if-blocked", z3.Implies(T(c.block_eom_mode), z3.Not(in_eom(c.old, CS(c)))))])

PROTOS = [str_const(s) for s in ("min-delay", "no-delay", "wait-for-all")]
contract(SQ, "Sequence._validate_add_protocol", props=("C13", "C03"),
         params={"self": ("ref", "Sequence"), "protocol": "str"},
         raises={"ValueError": lambda c: z3.And(*[T(c.protocol) != p for p in PROTOS])},
         ensures=lambda c: [("valid-protocol", z3.Or(*[T(c.protocol) == p for p in PROTOS]))])


# --------------------------------------------------------------------------
# _validate_and_adjust_pulse (C01, C07)
# --------------------------------------------------------------------------
from .pulse import NEGAMP  # noqa: E402
WF = "pulser-core/pulser/waveforms.py"

contract(WF, "Waveform.change_duration", props=("C01", "C16"), trusted=True,
         note="abstract interface contract (NotImplementedError for Custom/Composite); each implementing subclass is verified against it in the C16 set",
         params={"self": ("ref", "Waveform"), "new_duration": "int"}, result=("ref", "Waveform"),
         may_raise=("NotImplementedError",),
         ensures=lambda c: [("new-duration", WDUR(T(c.res)) == T(c.new_duration)),
                            ("keeps-non-negativity", z3.Implies(z3.Not(NEGAMP(T(c.self))), z3.Not(NEGAMP(T(c.res))))),
                            # (what the verified override ConstantWaveform.change_duration guarantees)
                            ("constant-stays-constant", z3.Implies(_isinst(T(c.self), "ConstantWaveform"),
                                                                   z3.And(_isinst(T(c.res), "ConstantWaveform"), _cval(T(c.res)) == _cval(T(c.self)))))])


def _isinst(r, cls):
    from pyvc.core import isinstance_term
    return isinstance_term(r, cls)


def _cval(w):
    return uf("ConstantWaveform._value", Ref, R)(w)


def dmap_of(h, cs):
    return uf("_DMMSchedule.detuning_map", Ref, Ref)(cs)


def vap_requires(c):
    cs = CS(c)
    return [("built", building(c.old, T(c.self))), ("declared", sch_has(c.old, SCH(c), T(c.channel))),
            ("valid_channel", valid_channel_f(cs_chan(cs))), ("valid-pulse", valid_pulse(T(c.pulse))),
            ("dmm-schedule-has-valid-map", z3.Implies(is_dmm(cs_chan(cs)), z3.And(is_dmm_sched(cs), valid_map(dmap_of(c.old, cs)),
                                                                                 SC_SUM(dmap_of(c.old, cs)) >= 0))),
            ("no-phase-ref-on-dmm", z3.Implies(is_dmm(cs_chan(cs)), c.phase_ref.none))]


from pyvc.core import isinstance_term  # noqa: E402
from pyvc.models import SUM  # noqa: E402


def is_dmm(ch):
    return isinstance_term(ch, "DMM")


def is_dmm_sched(cs):
    return isinstance_term(cs, "_DMMSchedule")


def SC_SUM(m):
    return SUM(W_ARR(m), W_LEN(m))


def vap_ensures(c):
    cs = CS(c)
    ch = cs_chan(cs)
    p, r = T(c.pulse), T(c.res)
    d0, d1 = p_duration(p), p_duration(r)
    ref = z3.If(z3.Or(c.phase_ref.none, T(c.phase_ref.val) == 0), z3.RealVal(0), T(c.phase_ref.val))
    out = [
        ("valid-pulse", valid_pulse(r)),
        ("duration-is-the-rounding-function", d1 == VDUR(clock(ch), d0)),
        ("duration-is-clock-multiple", Al(clock(ch), d1)),
        ("duration-only-lengthened-to-next-multiple", z3.And(d0 <= d1, d1 < d0 + clock(ch))),
        ("duration-within-channel-limits", z3.And(d1 >= min_dur(ch), d0 >= min_dur(ch), z3.Or(max_dur_none(ch), d0 <= max_dur(ch)))),
        ("accepted-unchanged-if-duration-unchanged", z3.Implies(d1 == d0, z3.And(P_AMP(r) == P_AMP(p), P_DET(r) == P_DET(p)))),
        ("unchanged-if-already-a-clock-multiple", z3.Implies(d0 == clock(ch) * QF(clock(ch), d0), d1 == d0)),
        ("phase-is-programmed-plus-reference", p_phase(r) == fmt(p_phase(p) + ref)),
        ("post-phase-shift-kept", P_PPS(r) == fmt(P_PPS(p))),
        ("input-amplitude-within-max", amp_ok(p, ch)),
        ("input-average-amplitude-ok", avg_ok(p, ch)),
        ("input-detuning-within-max", z3.Implies(z3.Not(is_dmm(ch)), det_ok(p, ch))),
        ("scheduled-pulse-within-limits-if-unchanged", z3.Implies(z3.And(d1 == d0, z3.Not(is_dmm(ch))), LIMITS(r, ch))),
        ("constant-pulse-stays-constant", z3.Implies(z3.And(_isinst(P_AMP(p), "ConstantWaveform"), _isinst(P_DET(p), "ConstantWaveform")),
                                                     z3.And(_isinst(P_AMP(r), "ConstantWaveform"), _isinst(P_DET(r), "ConstantWaveform"),
                                                            _cval(P_AMP(r)) == _cval(P_AMP(p)), _cval(P_DET(r)) == _cval(P_DET(p))))),
    ]
    for nm, cl in dmm_ok(p, ch, dmap_of(c.old, cs)):
        out.append((f"dmm.{nm}", z3.Implies(is_dmm(ch), cl)))
    return out


contract(SQ, "Sequence._validate_and_adjust_pulse", props=("C01", "C07", "C03"),
         lemmas=lambda c: [("A-mod-of-multiple", SC.mod_of_multiple(clock(cs_chan(CS(c))), QF(clock(cs_chan(CS(c))), p_duration(T(c.pulse)))))],
         params={"self": ("ref", "Sequence"), "pulse": ("ref", "Pulse"), "channel": "str", "phase_ref": ("opt", "real")},
         result=("ref", "Pulse"),
         requires=vap_requires,
         ensures=vap_ensures,
         raises={"ValueError": ("only-if", lambda c: z3.BoolVal(True)), "TypeError": ("only-if", lambda c: z3.BoolVal(True))},
         )


# --------------------------------------------------------------------------
# phase references: invariant of Sequence._basis_ref, _check_qubits_give_ids, _phase_shift (C07)
# --------------------------------------------------------------------------
BASIS = "Sequence._basis_ref"
BMD = "_BasisMap._d"


def br_has(h, seq, b):
    return z3.Select(h.read(BASIS + ".dom", seq), b)


def br_map(h, seq, b):
    return z3.Select(h.read(BASIS + ".map", seq), b)


def bm_has(h, bm, q):
    return z3.Select(h.read(BMD + ".dom", bm), q)


def bm_get(h, bm, q):
    return z3.Select(h.read(BMD + ".map", bm), q)


def qref(h, seq, b, q):
    return bm_get(h, br_map(h, seq, b), q)


def qids(h, seq):
    return h.read("Sequence._qids", seq)


def BRINV(h, seq):
    """every addressed basis has one allocated, distinct _QubitRef (with a distinct tracker) per register qubit, each satisfying its invariant"""
    b, b2 = z3.Const("b!br", PStr), z3.Const("b2!br", PStr)
    q, q2 = z3.Const("q!br", Qid), z3.Const("q2!br", Qid)
    alloc = h.get("$alloc")
    ok = lambda bb, qq: z3.And(br_has(h, seq, bb), bm_has(h, br_map(h, seq, bb), qq))
    out = [
        ("basis-maps-cover-the-register", z3.ForAll([b, q], z3.Implies(br_has(h, seq, b), bm_has(h, br_map(h, seq, b), q) == z3.Select(qids(h, seq), q)),
                                                  patterns=[bm_has(h, br_map(h, seq, b), q)])),
        ("refs-allocated", z3.ForAll([b, q], z3.Implies(ok(b, q), z3.And(z3.Select(alloc, qref(h, seq, b, q)), z3.Select(alloc, br_map(h, seq, b)))), patterns=[qref(h, seq, b, q)])),
        ("refs-distinct", z3.ForAll([b, q, b2, q2], z3.Implies(z3.And(ok(b, q), ok(b2, q2), z3.Or(b != b2, q != q2)),
                                                             z3.And(qref(h, seq, b, q) != qref(h, seq, b2, q2),
                                                                    q_phase(h, qref(h, seq, b, q)) != q_phase(h, qref(h, seq, b2, q2)))),
                                    patterns=[z3.MultiPattern(qref(h, seq, b, q), qref(h, seq, b2, q2))])),
    ]
    for nm, cl in QRINV(h, qref(h, seq, b, q)):
        if isinstance(cl, Q):
            out.append((f"ref.{nm}", Q([PStr, Qid] + list(cl.sorts),
                                      (lambda cl: lambda bb, qq, *vs: (lambda pc: (z3.And(ok(bb, qq), z3.substitute(pc[0], (b, bb), (q, qq))), z3.substitute(pc[1], (b, bb), (q, qq))))(cl.body(*vs)))(cl),
                                      pats=(lambda cl: lambda bb, qq, *vs: [tuple(z3.substitute(x, (b, bb), (q, qq)) for x in p) if isinstance(p, (tuple, list)) else z3.substitute(p, (b, bb), (q, qq)) for p in cl.pats(*vs)])(cl))))
        else:
            out.append((f"ref.{nm}", Q([PStr, Qid], (lambda cl: lambda bb, qq: (ok(bb, qq), z3.substitute(cl, (b, bb), (q, qq))))(cl), pats=lambda bb, qq: [qref(h, seq, bb, qq)])))
    out.append(("ref.last-used>=0", Q([PStr, Qid], lambda bb, qq: (ok(bb, qq), q_last(h, qref(h, seq, bb, qq)) >= 0), pats=lambda bb, qq: [qref(h, seq, bb, qq)])))
    return out


contract(SQ, "Sequence._check_qubits_give_ids", props=("C07", "C13"), trusted=True,
         note="index-based branch (register lookups) outside the subset; id-based branch stated exactly: returns the given ids iff they are all register qubits",
         params={"self": ("ref", "Sequence"), "qubits": "qset", "_index": "bool"}, result="qset",
         requires=lambda c: [("by-id", z3.Not(T(c._index)))],
         raises={"ValueError": lambda c: (lambda q: z3.Exists([q], z3.And(z3.Select(T(c.qubits), q), z3.Not(z3.Select(qids(c.old, T(c.self)), q)))))(z3.Const("q!cq", Qid))},
         ensures=lambda c: [("same-ids", T(c.res) == T(c.qubits))])


def ps_requires(c):
    return [("built", building(c.old, T(c.self))), ("targets-given", (lambda q: z3.Exists([q], z3.Select(T(c.specific_targets), q)))(z3.Const("q!ps", Qid))),
            ("by-id", z3.Not(T(c._index)))] + BRINV(c.old, T(c.self))


def ps_ensures(c):
    h0, h1, seq = c.old, c.new, T(c.self)
    b = T(c.basis)
    tg = T(c.specific_targets)
    phi = T(c.phi)
    tracker = lambda h, bb, qq: q_phase(h, qref(h, seq, bb, qq))
    return [
        ("targets-shifted-additively", Q([Qid], lambda q: (z3.Select(tg, q), z3.And(
            last_phase(h1, tracker(h0, b, q)) == fmt(last_phase(h0, tracker(h0, b, q)) + phi),
            last_time(h1, tracker(h0, b, q)) == q_last(h0, qref(h0, seq, b, q)))), pats=lambda q: [qref(h0, seq, b, q)])),
    ] + [(f"BRINV.{nm}", cl) for nm, cl in BRINV(h1, seq)]


def ps_touched(c):
    """trackers of the targeted qubits in the given basis"""
    h0, seq = c.old, T(c.self)
    b, tg = T(c.basis), T(c.specific_targets)
    q = z3.Const("q!pt", Qid)
    return lambda r: z3.Exists([q], z3.And(z3.Select(tg, q), r == q_phase(h0, qref(h0, seq, b, q))))


def ps_loop_inv(c):
    h0, h1, seq = c.x["pre"].heap, c.new, T(c.a["self"])
    b, phi = T(c.a["basis"]), T(c.st.env["phi"])
    order, idx = T(c.st.env["__qorder__"]), T(c.st.env["__qidx__"])
    tids = T(c.st.env["target_ids"])
    J = c.j
    tracker = lambda qq: q_phase(h0, qref(h0, seq, b, qq))
    return [
        ("visited-shifted", Q([Qid], lambda q: (z3.And(z3.Select(tids, q), z3.Select(idx, q) < J), z3.And(
            last_phase(h1, tracker(q)) == fmt(last_phase(h0, tracker(q)) + phi), last_time(h1, tracker(q)) == q_last(h0, qref(h0, seq, b, q)))),
            pats=lambda q: [qref(h0, seq, b, q)])),
        ("unvisited-untouched", Q([Qid], lambda q: (z3.And(z3.Select(tids, q), z3.Select(idx, q) >= J), z3.And(
            h1.read(BR_TIMES + ".len", tracker(q)) == h0.read(BR_TIMES + ".len", tracker(q)), h1.read(BR_TIMES + ".at", tracker(q)) == h0.read(BR_TIMES + ".at", tracker(q)),
            h1.read(BR_PHASES + ".len", tracker(q)) == h0.read(BR_PHASES + ".len", tracker(q)), h1.read(BR_PHASES + ".at", tracker(q)) == h0.read(BR_PHASES + ".at", tracker(q)))),
            pats=lambda q: [qref(h0, seq, b, q)])),
        ("only-target-trackers-touched", Q([Ref], lambda r: (z3.Not(ps_touched_t(h0, seq, b, tids)(r)), z3.And(
            h1.read(BR_TIMES + ".len", r) == h0.read(BR_TIMES + ".len", r), h1.read(BR_TIMES + ".at", r) == h0.read(BR_TIMES + ".at", r),
            h1.read(BR_PHASES + ".len", r) == h0.read(BR_PHASES + ".len", r), h1.read(BR_PHASES + ".at", r) == h0.read(BR_PHASES + ".at", r))),
            pats=lambda r: [h1.read(BR_TIMES + ".len", r)])),
    ] + [(f"BRINV.{nm}", cl) for nm, cl in BRINV(h1, seq)]


def ps_touched_t(h0, seq, b, tg):
    q = z3.Const("q!pt2", Qid)
    return lambda r: z3.Exists([q], z3.And(z3.Select(tg, q), r == q_phase(h0, qref(h0, seq, b, q))))


from .basis_ref import TIMES as BR_TIMES, PHASES as BR_PHASES  # noqa: E402

contract(SQ, "Sequence._phase_shift", props=("C07",),
         params={"self": ("ref", "Sequence"), "phi": "real", "specific_targets": "qset", "basis": "str", "_index": "bool"},
         requires=ps_requires,
         ensures=ps_ensures,
         raises={"ValueError": lambda c: z3.Or(z3.Not(br_has(c.old, T(c.self), T(c.basis))),
                                               (lambda q: z3.Exists([q], z3.And(z3.Select(T(c.specific_targets), q), z3.Not(z3.Select(qids(c.old, T(c.self)), q)))))(z3.Const("q!pr", Qid)))},
         modifies={BR_TIMES: ps_touched, BR_PHASES: ps_touched},
         loops={0: LoopSpec(ps_loop_inv, modifies=(BR_TIMES + ".len", BR_TIMES + ".at", BR_PHASES + ".len", BR_PHASES + ".at"))},
         exc_safe=True,
         )


# --------------------------------------------------------------------------
# Sequence._add  (C01, C03, C07)
# --------------------------------------------------------------------------
def seq_wf(c, ch=None):
    """what Sequence-level methods assume about the sequence (established by __init__/declare_channel, preserved by every method)"""
    h, seq = c.old, T(c.self)
    sch = SCH(c)
    key = z3.Const("key!sw", PStr)
    k = z3.Int("k!sw")
    cs_k = sch_get(h, sch, key)
    out = [("built", building(h, seq)),
           ("schedule-wf", SC.SCHED_WF(h, sch)),
           ("schedule-allocated", z3.Select(h.get("$alloc"), sch)),
           ("bases-of-declared-channels-are-tracked", z3.ForAll([key], z3.Implies(sch_has(h, sch, key), br_has(h, seq, fget("Channel", "basis", cs_chan(cs_k)))), patterns=[sch_get(h, sch, key)])),
           ("targets-are-register-qubits", z3.ForAll([key, k], z3.Implies(z3.And(sch_has(h, sch, key), 0 <= k, k < cs_len(h, cs_k)),
                                                                           subset(s_targets(cs_at(h, cs_k, k)), qids(h, seq))), patterns=[cs_at(h, cs_k, k)])),
           ("dmm-schedules", z3.ForAll([key], z3.Implies(z3.And(sch_has(h, sch, key), is_dmm(cs_chan(cs_k))),
                                                         z3.And(is_dmm_sched(cs_k), valid_map(dmap_of(h, cs_k)), SC_SUM(dmap_of(h, cs_k)) >= 0)), patterns=[sch_get(h, sch, key)])),
           ("targets-nonempty", z3.ForAll([key, k], z3.Implies(z3.And(sch_has(h, sch, key), 0 <= k, k < cs_len(h, cs_k)),
                                                              nonempty(s_targets(cs_at(h, cs_k, k)))), patterns=[cs_at(h, cs_k, k)])),
           ("slm-dmm-declared", z3.Or(h.read("Sequence._slm_mask_dmm?", seq), z3.Not(h.read("Sequence._in_ising_value", seq)),
                                      sch_has(h, sch, h.read("Sequence._slm_mask_dmm", seq)))),
           ]
    out += SC.all_channels_requires_h(h, sch, ("len>=0", "kinds", "monotone", "boundaries-nonneg", "first-is-initial-target") + SC.LRT_HYPS)
    return out + BRINV(h, seq)


def nonempty(a):
    q = z3.Const("q!ne", Qid)
    return z3.Exists([q], z3.Select(a, q))


def subset(a, b):
    q = z3.Const("q!sub", Qid)
    return z3.ForAll([q], z3.Implies(z3.Select(a, q), z3.Select(b, q)))


def add_requires(c):
    h, seq = c.old, T(c.self)
    cs = CS(c)
    dn = h.read("Sequence._slm_mask_dmm?", seq)
    return seq_wf(c) + [
        ("declared", sch_has(h, SCH(c), T(c.channel))),
        ("valid-pulse", valid_pulse(T(c.pulse))),
        ("no-pending-slm-mask-dmm", z3.Or(dn, z3.Not(h.read("Sequence._in_ising_value", seq)),
                                          z3.Not(h.read("_DMMSchedule._waiting_for_first_pulse", sch_get(h, SCH(c), h.read("Sequence._slm_mask_dmm", seq)))))),
        ("drift-params-only-in-eom", z3.BoolVal(True)),
    ] + SC.INV(h, cs) + SC.EOMWF(h, cs) + [("within-max-sequence-duration", SC.MAXD(h, SCH(c), cs))]


def add_ensures(c):
    h0, h1, seq = c.old, c.new, T(c.self)
    sch = SCH(c)
    cs = CS(c)
    ch = cs_chan(cs)
    basis = fget("Channel", "basis", ch)
    n0, n1 = cs_len(h0, cs), cs_len(h1, cs)
    last = cs_at(h0, cs, n0 - 1)
    new = cs_at(h1, cs, n1 - 1)
    tg = s_targets(last)
    p = T(c.pulse)
    sp = s_pulse(new)
    q = z3.Const("q!ae", Qid)
    ref0 = lambda qq: qref(h0, seq, basis, qq)
    tr0 = lambda qq: q_phase(h0, ref0(qq))
    drift_none = c.phase_drift_params.none
    return [
        ("appends-a-pulse-slot-on-the-same-targets", z3.And(n1 >= n0 + 1, n1 <= n0 + 2, s_kind(new) == PULSE, s_targets(new) == tg)),
        ("scheduled-duration-is-validated", z3.And(p_duration(sp) >= p_duration(p), p_duration(sp) < p_duration(p) + clock(ch), p_duration(sp) >= min_dur(ch))),
        ("accepted-unchanged-if-clock-multiple", z3.Implies(z3.And(drift_none, p_duration(sp) == p_duration(p)), z3.And(P_AMP(sp) == P_AMP(p), P_DET(sp) == P_DET(p)))),
        ("within-limits-if-unchanged", z3.Implies(z3.And(drift_none, p_duration(sp) == p_duration(p), z3.Not(is_dmm(ch))), LIMITS(sp, ch))),
        ("assert:targets-share-one-reference", z3.Implies(z3.Not(is_dmm(ch)), (lambda q1, q2: z3.ForAll([q1, q2], z3.Implies(z3.And(z3.Select(tg, q1), z3.Select(tg, q2)),
                                                                                 last_phase(h0, tr0(q1)) == last_phase(h0, tr0(q2))),
                                                                                 patterns=[z3.MultiPattern(ref0(q1), ref0(q2))]))(z3.Const("q1!ae", Qid), z3.Const("q2!ae", Qid)))),
        ("assert:phase-uses-some-target's-reference", z3.Implies(z3.And(drift_none, z3.Not(is_dmm(ch))),
                                                               z3.Exists([q], z3.And(z3.Select(tg, q), p_phase(sp) == fmt(p_phase(p) + z3.If(last_phase(h0, tr0(q)) == 0, 0, last_phase(h0, tr0(q))))),
                                                                         patterns=[ref0(q)]))),
        ("phase-is-programmed-plus-reference", z3.Implies(z3.And(drift_none, z3.Not(is_dmm(ch))),
                                                         z3.ForAll([q], z3.Implies(z3.Select(tg, q), p_phase(sp) == fmt(p_phase(p) + z3.If(last_phase(h0, tr0(q)) == 0, 0, last_phase(h0, tr0(q))))), patterns=[ref0(q)]))),
        ("starts-after-latest-phase-shift-of-targets", z3.ForAll([q], z3.Implies(z3.Select(tg, q), s_ti(new) >= last_time(h0, tr0(q))), patterns=[ref0(q)])),
        ("targets-marked-used", z3.ForAll([q], z3.Implies(z3.Select(tg, q), q_last(h1, ref0(q)) >= s_tf(new)), patterns=[ref0(q)])),
        ("post-phase-shift-applied", z3.Implies(drift_none, z3.ForAll([q], z3.Implies(z3.Select(tg, q),
                                                z3.If(P_PPS(sp) != 0, last_phase(h1, tr0(q)) == fmt(last_phase(h0, tr0(q)) + P_PPS(sp)),
                                                      last_phase(h1, tr0(q)) == last_phase(h0, tr0(q)))), patterns=[ref0(q)]))),
        ("within-max-sequence-duration", SC.MAXD(h1, sch, cs)),
        # a constant (square) pulse is scheduled as a constant pulse with the same values, whatever the stretching and the drift correction do
        ("constant-pulse-scheduled-as-constant", z3.Implies(z3.And(_isinst(P_AMP(p), "ConstantWaveform"), _isinst(P_DET(p), "ConstantWaveform")),
                                                            z3.And(_isinst(P_AMP(sp), "ConstantWaveform"), _isinst(P_DET(sp), "ConstantWaveform"),
                                                                   _cval(P_AMP(sp)) == _cval(P_AMP(p)), _cval(P_DET(sp)) == _cval(P_DET(p))))),
        # drift-corrected adds (EOM pulses): the same drift is taken off the pulse's phase and off the targets' phase reference
        ("drift-corrected-phase", z3.Implies(z3.And(z3.Not(drift_none), z3.Not(is_dmm(ch))),
                                             z3.ForAll([q], z3.Implies(z3.Select(tg, q), p_phase(sp) == fmt(fmt(p_phase(p) + z3.If(last_phase(h0, tr0(q)) == 0, 0, last_phase(h0, tr0(q)))) - _drift(c, new))),
                                                       patterns=[ref0(q)]))),
        ("drift-taken-off-the-reference", z3.Implies(z3.Not(drift_none), z3.ForAll([q], z3.Implies(z3.Select(tg, q),
                                                     z3.If(fmt(P_PPS(p)) - _drift(c, new) != 0, last_phase(h1, tr0(q)) == fmt(last_phase(h0, tr0(q)) + (fmt(P_PPS(p)) - _drift(c, new))),
                                                           last_phase(h1, tr0(q)) == last_phase(h0, tr0(q)))), patterns=[ref0(q)]))),
    ] + SC.prefix(c_with(c, sch), cs) + [(f"INV.{nm}", cl) for nm, cl in SC.INV(h1, cs)] + [(f"BRINV.{nm}", cl) for nm, cl in BRINV(h1, seq)]


def _drift(c, new):
    """phase drift accumulated at the rate of the given parameters up to the start of the new pulse slot"""
    pd = T(c.phase_drift_params.val)
    return uf("DRIFT", R, I, R)(uf("_PhaseDriftParams.drift_rate", Ref, R)(pd), s_ti(new) - uf("_PhaseDriftParams.ti", Ref, I)(pd))


class _C:
    pass


def c_with(c, sch):
    return c


def add_touched_refs(c):
    h0, seq = c.old, T(c.self)
    cs = CS(c)
    basis = fget("Channel", "basis", cs_chan(cs))
    tg = s_targets(cs_at(h0, cs, cs_len(h0, cs) - 1))
    q = z3.Const("q!tr", Qid)
    return lambda r: z3.Exists([q], z3.And(z3.Select(tg, q), r == qref(h0, seq, basis, q)))


def add_touched_trackers(c):
    h0, seq = c.old, T(c.self)
    cs = CS(c)
    basis = fget("Channel", "basis", cs_chan(cs))
    tg = s_targets(cs_at(h0, cs, cs_len(h0, cs) - 1))
    q = z3.Const("q!tt", Qid)
    return lambda r: z3.Exists([q], z3.And(z3.Select(tg, q), r == q_phase(h0, qref(h0, seq, basis, q))))


def add_loop_inv(c):
    h0, h1, seq = c.x["pre"].heap, c.new, T(c.a["self"])
    idx = T(c.st.env["__qidx__"])
    basis = T(c.st.env["basis"])
    last = T(c.st.env["last"])
    tf = s_tf(T(c.st.env["new_pulse_slot"]))
    tg = s_targets(last)
    J = c.j
    ref = lambda qq: qref(h0, seq, basis, qq)
    return [
        ("visited-marked", Q([Qid], lambda q: (z3.And(z3.Select(tg, q), z3.Select(idx, q) < J), z3.And(q_last(h1, ref(q)) >= tf, q_last(h1, ref(q)) >= q_last(h0, ref(q)))), pats=lambda q: [ref(q)])),
        ("others-untouched", Q([Ref], lambda r: (z3.Not((lambda q: z3.Exists([q], z3.And(z3.Select(tg, q), z3.Select(idx, q) < J, r == ref(q))))(z3.Const("q!li", Qid))),
                                                 q_last(h1, r) == q_last(h0, r)), pats=lambda r: [q_last(h1, r)])),
    ]


contract(SQ, "Sequence._add", props=("C01", "C03", "C07"),
         params={"self": ("ref", "Sequence"), "pulse": ("ref", "Pulse"), "channel": "str", "protocol": "str",
                 "phase_drift_params": ("opt", ("ref", "_PhaseDriftParams"))},
         requires=add_requires,
         ensures=add_ensures,
         raises={"ValueError": ("only-if", lambda c: z3.BoolVal(True)), "RuntimeError": ("only-if", lambda c: z3.BoolVal(True)), "TypeError": ("only-if", lambda c: z3.BoolVal(True))},
         modifies={SC.SLOTS: lambda c: [CS(c)], "_QubitRef.last_used": add_touched_refs, BR_TIMES: add_touched_trackers, BR_PHASES: add_touched_trackers},
         loops={0: LoopSpec(add_loop_inv, modifies=("_QubitRef.last_used",))},
         slices={"drift-taken-off-the-reference": ("targets-shifted-additively", "post-phase-shift-kept", "rate-times-elapsed-time", "frame", "pulse-slot", "drift-corrected-phase"),
                 "drift-corrected-phase": ("phase-is-programmed-plus-reference", "drift-corrected-phase", "rate-times-elapsed-time", "frame", "pulse-slot", "targets-share-one-reference")},
         )


# --------------------------------------------------------------------------
# decorators' helpers, _delay, _target (C09, C13, C02, C10)
# --------------------------------------------------------------------------
DEC = "pulser-core/pulser/sequence/_decorators.py"
inline(SQ, "Sequence.is_measured")

contract(DEC, "verify_variable", props=("C08", "C13"), trusted=True,
         note="recursive scan for Parametrized objects (dynamic iteration with try/except TypeError); for values that contain no Parametrized object it has no effect, which is the only case the built-sequence contracts use",
         params={"seq": ("ref", "Sequence"), "x": "opaque"},
         ensures=lambda c: [])


def measured(h, seq):
    return z3.If(building(h, seq), h.read("Sequence.$has__measurement", seq), h.read("Sequence._param_measurement", seq) != str_const(""))


def delay_requires(c):
    h = c.old
    cs = CS(c)
    declared = sch_has(h, SCH(c), T(c.channel))
    return seq_wf(c) + [(f"declared=>{nm}", guard_decl(declared, cl)) for nm, cl in SC.INV(h, cs) + SC.EOMWF(h, cs) +
                        [("within-max-sequence-duration", SC.MAXD(h, SCH(c), cs)), ("has-target-or-empty", z3.BoolVal(True))]]


def guard_decl(g, cl):
    if isinstance(cl, Q):
        return Q(cl.sorts, (lambda cl: lambda *vs: (lambda pc: (z3.And(g, pc[0]), pc[1]))(cl.body(*vs)))(cl), pats=cl.pats)
    if isinstance(cl, Al):
        return z3.Implies(g, cl.x == cl.c * QF(cl.c, cl.x))
    return z3.Implies(g, cl)


def delay_ensures(c):
    h0, h1 = c.old, c.new
    cs = CS(c)
    ch = cs_chan(cs)
    n0, n1 = cs_len(h0, cs), cs_len(h1, cs)
    d = T(c.duration)
    new = cs_at(h1, cs, n1 - 1)
    return [
        ("appends-only-delays", z3.And(n1 >= n0, n1 <= n0 + 2)),
        ("zero-duration-adds-nothing-but-the-fall-wait", z3.Implies(d == 0, z3.And(n1 <= n0 + 1, z3.Implies(z3.Not(T(c.at_rest)), n1 == n0)))),
        ("delay-of-validated-duration", z3.Implies(d != 0, z3.And(n1 >= n0 + 1, s_tf(new) - s_ti(new) >= d, s_tf(new) - s_ti(new) < d + clock(ch), s_tf(new) - s_ti(new) >= min_dur(ch)))),
        ("no-fall-wait-unless-at-rest", z3.Implies(z3.Not(T(c.at_rest)), n1 <= n0 + 1)),
        ("within-max-sequence-duration", SC.MAXD(h1, SCH(c), cs)),
    ] + SC.prefix(c, cs) + [(f"INV.{nm}", cl) for nm, cl in SC.INV(h1, cs)]


contract(SQ, "Sequence._delay", props=("C02", "C09", "C13"),
         params={"self": ("ref", "Sequence"), "duration": "int", "channel": "str", "at_rest": "bool"},
         requires=delay_requires,
         ensures=delay_ensures,
         raises={"RuntimeError": ("only-if", lambda c: z3.Or(measured(c.old, T(c.self)), z3.Not(c.old.read("_Schedule.max_duration?", SCH(c)) if False else z3.BoolVal(False)),
                                                               z3.BoolVal(True))),
                 "ValueError": ("only-if", lambda c: z3.BoolVal(True))},
         modifies={SC.SLOTS: lambda c: [CS(c)]},
         exc_safe=True,
         exc_safe_if=lambda c: z3.Or(z3.Not(T(c.at_rest)), z3.Not(sch_has(c.old, SCH(c), T(c.channel))), SC.no_pending_fall(c.old, CS(c))),
         )


def target_requires(c):
    h = c.old
    cs = CS(c)
    declared = sch_has(h, SCH(c), T(c.channel))
    return seq_wf(c) + [("by-id", z3.Not(T(c._index)))] + [(f"declared=>{nm}", guard_decl(declared, cl)) for nm, cl in SC.INV(h, cs) + SC.EOMWF(h, cs) +
                                                             [("within-max-sequence-duration", SC.MAXD(h, SCH(c), cs))]]


def target_ensures(c):
    h0, h1 = c.old, c.new
    cs = CS(c)
    n0, n1 = cs_len(h0, cs), cs_len(h1, cs)
    qs = T(c.qubits)
    new = cs_at(h1, cs, n1 - 1)
    same = z3.And(n0 >= 1, s_targets(cs_at(h0, cs, n0 - 1)) == qs)
    return [
        ("local-channel-outside-eom", z3.And(fget("Channel", "addressing", cs_chan(cs)) == LOCAL, z3.Not(in_eom(h0, cs)))),
        ("targets-are-register-qubits", subset(qs, qids(h0, T(c.self)))),
        ("same-targets-inserts-nothing", z3.Implies(same, n1 == n0)),
        ("new-target-slot", z3.Implies(z3.Not(same), z3.And(n1 >= n0 + 1, n1 <= n0 + 2, s_kind(new) == TARGET, s_targets(new) == qs))),
        ("within-max-sequence-duration", SC.MAXD(h1, SCH(c), cs)),
    ] + SC.prefix(c, cs) + [(f"INV.{nm}", cl) for nm, cl in SC.INV(h1, cs)]


contract(SQ, "Sequence._target", props=("C02", "C10", "C09", "C13"),
         params={"self": ("ref", "Sequence"), "qubits": "qset", "channel": "str", "_index": "bool"},
         requires=target_requires,
         ensures=target_ensures,
         raises={"RuntimeError": ("only-if", lambda c: z3.BoolVal(True)), "ValueError": ("only-if", lambda c: z3.BoolVal(True))},
         modifies={SC.SLOTS: lambda c: [CS(c)]},
         exc_safe=True,
         exc_safe_if=lambda c: z3.Or(z3.Not(sch_has(c.old, SCH(c), T(c.channel))), SC.no_pending_fall(c.old, CS(c))),
         )


# --------------------------------------------------------------------------
# estimate_added_delay (C03): its own postcondition + the relational check rel:estimate-equals-actual (pyvc/relational.py)
# --------------------------------------------------------------------------
def est_requires(c):
    return [cl for cl in add_requires(Ctx2(c)) if cl[0] not in ("drift-params-only-in-eom",)]


class Ctx2:
    """view of an estimate_added_delay context as an _add context (no drift parameters)"""

    def __init__(self, c):
        self.__dict__.update(c.__dict__)
        from pyvc.core import OptV, Sym, fresh, Ref
        self.a = dict(c.a, phase_drift_params=OptV(z3.BoolVal(True), Sym(z3.Const("nodrift", Ref), ("ref", "_PhaseDriftParams"))))

    def __getattr__(self, name):
        a = self.__dict__.get("a", {})
        if name in a:
            return a[name]
        raise AttributeError(name)


contract(SQ, "Sequence.estimate_added_delay", props=("C03", "C09"),
         params={"self": ("ref", "Sequence"), "pulse": ("ref", "Pulse"), "channel": "str", "protocol": "str"}, result="int",
         requires=est_requires,
         ensures=lambda c: [("non-negative", T(c.res) >= 0),
                            ("zero-or-valid-duration", z3.Or(T(c.res) == 0, T(c.res) >= min_dur(cs_chan(CS(c)))))],
         raises={"ValueError": ("only-if", lambda c: z3.BoolVal(True)), "RuntimeError": ("only-if", lambda c: z3.BoolVal(True)), "TypeError": ("only-if", lambda c: z3.BoolVal(True))},
         )
