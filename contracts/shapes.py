"""Declared shapes of the repository classes (DESIGN appendix A.1).

Only declared fields can be read; immutable fields are uninterpreted functions
of the reference (A-IMMUT), mutable ones live in the heap.
"""
from pyvc.core import SHAPES, declare_heap_fields, shape

M = True  # mutable marker

shape("BaseEOM", mod_bandwidth="real", custom_buffer_time=("opt", "int"))
shape("RydbergEOM", bases=("BaseEOM",))

shape("Channel",
      addressing="str",
      max_abs_detuning=("opt", "real"), max_amp=("opt", "real"),
      min_retarget_interval=("opt", "int"), fixed_retarget_t=("opt", "int"),
      max_targets=("opt", "int"),
      clock_period="int", min_duration="int", max_duration=("opt", "int"),
      min_avg_amp="real", mod_bandwidth=("opt", "real"),
      custom_phase_jump_time=("opt", "int"),
      eom_config=("opt", ("ref", "BaseEOM")),
      basis="str")
shape("Rydberg", bases=("Channel",))
shape("Raman", bases=("Channel",))
shape("Microwave", bases=("Channel",))
shape("DMM", bases=("Channel",), bottom_detuning=("opt", "real"), total_bottom_detuning=("opt", "real"))

shape("Waveform", _duration="int")
shape("ConstantWaveform", bases=("Waveform",), _value="real")
shape("RampWaveform", bases=("Waveform",), _start="real", _stop="real")
shape("Pulse", amplitude=("ref", "Waveform"), detuning=("ref", "Waveform"), phase="real", post_phase_shift="real")

ts = shape("_TimeSlot", type="slotty", ti="int", tf="int", targets="qset")
ts.ctor_fields = ["type", "ti", "tf", "targets"]

eb = shape("_EOMSettings", rabi_freq="real", detuning_on="real", detuning_off="real", ti="int",
           tf=(("opt", "int"), M), switching_beams="opaque")
eb.ctor_fields = ["rabi_freq", "detuning_on", "detuning_off", "ti", "tf", "switching_beams"]
eb.ctor_defaults = {"tf": None, "switching_beams": ()}

pd = shape("_PhaseDriftParams", drift_rate="real", ti="int")
pd.ctor_fields = ["drift_rate", "ti"]

shape("WeightMap")
shape("DetuningMap", bases=("WeightMap",))

cs = shape("_ChannelSchedule", channel_id="str", channel_obj=("ref", "Channel"),
           slots=(("list", ("ref", "_TimeSlot")), M),
           eom_blocks=(("list", ("ref", "_EOMSettings")), M))
shape("_DMMSchedule", bases=("_ChannelSchedule",), detuning_map=("ref", "DetuningMap"),
      _waiting_for_first_pulse=("bool", M))

shape("_Schedule", max_duration=("opt", "int"),
      _d=(("map", "str", ("ref", "_ChannelSchedule")), M))   # the dict content of the subclass

declare_heap_fields()
