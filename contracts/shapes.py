"""Declared shapes of the repository classes (DESIGN appendix A.1).

Only declared fields can be read; immutable fields are uninterpreted functions
of the reference (A-IMMUT), mutable ones live in the heap.
"""
from pyvc.core import SHAPES, declare_heap_fields, shape

M = True  # mutable marker

shape("BaseEOM", mod_bandwidth="real", custom_buffer_time=("opt", "int"))
shape("RydbergEOM", bases=("BaseEOM",))

shape("Channel",
      addressing="str",
      max_abs_detuning=("opt", "real"), max_amp=("opt", "real"),
      min_retarget_interval=("opt", "int"), fixed_retarget_t=("opt", "int"),
      max_targets=("opt", "int"),
      clock_period="int", min_duration="int", max_duration=("opt", "int"),
      min_avg_amp="real", mod_bandwidth=("opt", "real"),
      custom_phase_jump_time=("opt", "int"),
      eom_config=("opt", ("ref", "BaseEOM")),
      basis="str")
shape("Rydberg", bases=("Channel",))
shape("Raman", bases=("Channel",))
shape("Microwave", bases=("Channel",))
shape("DMM", bases=("Channel",), bottom_detuning=("opt", "real"), total_bottom_detuning=("opt", "real"))

shape("Waveform", _duration="int")
shape("ConstantWaveform", bases=("Waveform",), _value="real")
shape("RampWaveform", bases=("Waveform",), _start="real", _stop="real")
shape("Pulse", amplitude=("ref", "Waveform"), detuning=("ref", "Waveform"), phase="real", post_phase_shift="real")

ts = shape("_TimeSlot", type="slotty", ti="int", tf="int", targets="qset")
ts.ctor_fields = ["type", "ti", "tf", "targets"]

eb = shape("_EOMSettings", rabi_freq="real", detuning_on="real", detuning_off="real", ti="int",
           tf=(("opt", "int"), M), switching_beams="opaque")
eb.ctor_fields = ["rabi_freq", "detuning_on", "detuning_off", "ti", "tf", "switching_beams"]
eb.ctor_defaults = {"tf": None, "switching_beams": ()}

pd = shape("_PhaseDriftParams", drift_rate="real", ti="int")
pd.ctor_fields = ["drift_rate", "ti"]


cs = shape("_ChannelSchedule", channel_id="str", channel_obj=("ref", "Channel"),
           slots=(("list", ("ref", "_TimeSlot")), M),
           eom_blocks=(("list", ("ref", "_EOMSettings")), M))
shape("_DMMSchedule", bases=("_ChannelSchedule",), detuning_map=("ref", "DetuningMap"),
      _waiting_for_first_pulse=("bool", M))

shape("_Schedule", max_duration=("opt", "int"),
      _d=(("map", "str", ("ref", "_ChannelSchedule")), M))   # the dict content of the subclass

declare_heap_fields()

# --- sequence/_basis_ref.py (declared after the first batch; heap fields re-declared below) ---
shape("_PhaseTracker", _times=(("list", "int"), M), _phases=(("list", "real"), M))
shape("_QubitRef", phase=(("ref", "_PhaseTracker"), M), last_used=("int", M))
declare_heap_fields()

# --- sequence/sequence.py -----------------------------------------------------
shape("_Call", name="str", args="opaque", kwargs="opaque")
shape("Variable", name="str", size="int", dtype="opaque", value=(("opt", ("ref", "Obj")), M), _count=("int", M))
shape("VariableItem")
shape("ParamObj")
shape("Obj")
shape("RegisterLayout", dimensionality="int", number_of_traps="int", traps_dict=("ref", "Obj"))
shape("BaseDevice", max_sequence_duration=("opt", "int"), reusable_channels="bool", dimensions="int", max_atom_num=("opt", "int"),
      min_layout_traps="int", max_layout_traps=("opt", "int"), max_layout_filling="real", max_radial_distance=("opt", "real"), min_atom_distance="real")
shape("BaseRegister", dimensionality="int", qubits=("ref", "Obj"), layout=("opt", ("ref", "RegisterLayout")), qubit_ids=("list", "qid"))
shape("MappableRegister", layout=("opt", ("ref", "RegisterLayout")), qubit_ids=("list", "qid"))
shape("_BasisMap", _d=(("map", "qid", ("ref", "_QubitRef")), M))      # dict[QubitId, _QubitRef]
shape("_DeclMap")                                                     # the dict returned by Sequence.declared_channels (abstract)
shape("Sequence",
      _schedule=("ref", "_Schedule"),
      _basis_ref=(("map", "str", ("ref", "_BasisMap")), M),
      _device=("ref", "BaseDevice"), _register=(("ref", "BaseRegister"), M),
      _building=("bool", M), _in_xy=("bool", M), _in_ising_value=("bool", M), _empty_sequence=("bool", M),
      _slm_mask_dmm=(("opt", "str"), M), _slm_mask_targets=("qset", M), _qids=("qset", M),
      _calls=(("list", ("ref", "_Call")), M), _to_build_calls=(("list", ("ref", "_Call")), M),
      _param_measurement=("str", M), _measurement=("str", M))
SHAPES["Sequence"].fields["$has__measurement"] = ("bool", True)
SHAPES["_Call"].ctor_fields = ["name", "args", "kwargs"]
declare_heap_fields()

# --- waveforms (C16) -----------------------------------------------------------
shape("CompositeWaveform", bases=("Waveform",), _waveforms=("list", ("ref", "Waveform")))
shape("CustomWaveform", bases=("Waveform",))
shape("BlackmanWaveform", bases=("Waveform",), _area="real")
shape("KaiserWaveform", bases=("Waveform",), _area="real", _beta="real")
shape("InterpolatedWaveform", bases=("Waveform",))
declare_heap_fields()

# --- sampler (C06) ---------------------------------------------------------------
shape("ChannelSamples", amp=("list", "real"), det=("list", "real"), phase=("list", "real"), duration="int",
      eom_blocks=("list", ("ref", "_EOMSettings")), _centered_phase=("opt", ("list", "real")),
      slots="opaque", eom_start_buffers="opaque", eom_end_buffers="opaque", target_time_slots="opaque")
SHAPES["ChannelSamples"].derived = {"duration"}
declare_heap_fields()

# --- register/_coordinates.py (C19) ----------------------------------------------
shape("CoordsCollection", _rounded_coords=("ref", "Obj"))
shape("WeightMap", bases=("CoordsCollection",), weights=("list", "real"))
shape("DetuningMap", bases=("WeightMap",))
declare_heap_fields()
