"""Contracts for pulser-core/pulser/channels/base_channel.py (timing leaves)."""
import z3

from pyvc.contracts import Al, Bridge, Q, QF, contract, inline
from pyvc.core import OptV, to_real
from .lib import (EOM_RISE, FALL, PJT, RISE, T, clock, fget, fnone, max_dur, max_dur_none, min_dur,
                  modbw, modbw_none, valid_channel, valid_channel_f)

from pyvc.core import I as _I, uf as _uf  # noqa: E402
VDUR = _uf("VDUR", _I, _I, _I)    # spec function: duration d rounded up to the next multiple of clock c


def vdur_def(c, d):
    m = d % c
    return VDUR(c, d) == z3.If(m == 0, d, d + c - m)


def VC(c):
    return ("valid_channel", valid_channel_f(T(c.self)))


BC = "pulser-core/pulser/channels/base_channel.py"
EOMF = "pulser-core/pulser/channels/eom.py"


def trunc_real(x):
    fl = z3.ToInt(x)
    return z3.If(x >= 0, fl, z3.If(z3.ToReal(fl) == x, fl, fl + 1))


def rise_def(ch):
    """Definition of the spec function RISE (documented: int(0.48 / bw * 1e3), 0 without bandwidth)."""
    bw = modbw(ch)
    return z3.If(z3.And(z3.Not(modbw_none(ch)), bw != 0),
                 trunc_real(z3.RealVal("0.48") / bw * 1000), 0)


contract(BC, "Channel.validate_duration", props=("C01", "C02", "C18"),
         params={"self": ("ref", "Channel"), "duration": "int"}, result="int",
         requires=lambda c: [VC(c)],
         ensures=lambda c: [
             ("clock_multiple", Bridge(T(c.res) % clock(T(c.self)) == 0, Al(clock(T(c.self)), T(c.res)),
                                       "x % c == 0 implies x == c*q for q = x div c; QF is the global skolem function for q")),
             ("clock_multiple_mod", T(c.res) % clock(T(c.self)) == 0),
             ("next_multiple", z3.And(T(c.duration) <= T(c.res), T(c.res) < T(c.duration) + clock(T(c.self)))),
             ("at_least_min", T(c.res) >= min_dur(T(c.self))),
             ("identity_on_multiples", z3.Implies(T(c.duration) % clock(T(c.self)) == 0, T(c.res) == T(c.duration))),
             ("is-the-rounding-function", T(c.res) == VDUR(clock(T(c.self)), T(c.duration))),
             ("at_most_max", z3.Or(max_dur_none(T(c.self)), T(c.res) <= max_dur(T(c.self)))),
         ],
         spec_defs=lambda c: [vdur_def(clock(T(c.self)), T(c.duration))],
         raises={"ValueError": lambda c: z3.Or(T(c.duration) < min_dur(T(c.self)),
                                               z3.And(z3.Not(max_dur_none(T(c.self))), T(c.duration) > max_dur(T(c.self))))},
         )

contract(BC, "Channel.rise_time", props=("C02", "C03", "C10", "C18"),
         params={"self": ("ref", "Channel")}, result="int",
         requires=lambda c: [VC(c)],
         spec_defs=lambda c: [RISE(T(c.self)) == rise_def(T(c.self))],
         ensures=lambda c: [
             ("is_RISE", T(c.res) == RISE(T(c.self))),
             ("nonneg", T(c.res) >= 0),
             ("zero_without_bandwidth", z3.Implies(modbw_none(T(c.self)), T(c.res) == 0)),
         ])


def pjt_def(ch):
    cpn, cp = fnone("Channel", "custom_phase_jump_time", ch), fget("Channel", "custom_phase_jump_time", ch)
    return z3.If(cpn, 2 * RISE(ch), cp)


contract(BC, "Channel.phase_jump_time", props=("C10", "C18"),
         params={"self": ("ref", "Channel")}, result="int",
         requires=lambda c: [VC(c)],
         spec_defs=lambda c: [PJT(T(c.self)) == pjt_def(T(c.self))],
         ensures=lambda c: [
             ("is_PJT", T(c.res) == PJT(T(c.self))),
             ("nonneg", T(c.res) >= 0),
             ("default_twice_rise", z3.Implies(fnone("Channel", "custom_phase_jump_time", T(c.self)), T(c.res) == 2 * RISE(T(c.self)))),
             ("custom", z3.Implies(z3.Not(fnone("Channel", "custom_phase_jump_time", T(c.self))),
                                   T(c.res) == fget("Channel", "custom_phase_jump_time", T(c.self)))),
         ])

inline(BC, "Channel.supports_eom")


def eom_buf_def(ch):
    eom = fget("Channel", "eom_config", ch)
    cbn, cb = fnone("BaseEOM", "custom_buffer_time", eom), fget("BaseEOM", "custom_buffer_time", eom)
    return z3.If(z3.And(z3.Not(cbn), cb != 0), cb, 2 * RISE(ch))


from .lib import uf, Ref, I  # noqa: E402
EOMBUF = uf("EOMBUF", Ref, I)

contract(BC, "Channel._eom_buffer_time", props=("C15", "C18"),
         params={"self": ("ref", "Channel")}, result="int",
         requires=lambda c: [VC(c)] + [("supports_eom", z3.Not(fnone("Channel", "eom_config", T(c.self))))],
         spec_defs=lambda c: [EOMBUF(T(c.self)) == eom_buf_def(T(c.self))],
         ensures=lambda c: [
             ("is_EOMBUF", T(c.res) == EOMBUF(T(c.self))),
             ("nonneg", T(c.res) >= 0),
             ("custom_or_twice_rise", T(c.res) == eom_buf_def(T(c.self))),
         ])
