"""C19 (core): the canonical trap order sorts by x, then y, then z: lexsort receives the columns in reverse order."""
import z3

from pyvc.contracts import Q, contract
from pyvc.core import I, Ref, uf
from .lib import T

CF = "pulser-core/pulser/register/_coordinates.py"
ROUNDED = lambda o: uf("CoordsCollection._rounded_coords", Ref, Ref)(o)
NCOLS = lambda a: uf("NP_COLS", Ref, I)(a)
COL = lambda a, i: uf("NP_COL", Ref, I, Ref)(a, i)
LEXSORT = z3.Function("NP_LEXSORT", z3.ArraySort(I, Ref), I, Ref)


def sort_ensures(c):
    a = ROUNDED(T(c.self))
    d = NCOLS(a)
    keys = z3.Const("keys!cs", z3.ArraySort(I, Ref))
    j = z3.Int("j!cs")
    # the result is lexsort of SOME key sequence of length dims whose j-th key is column dims-1-j: i.e. primary key x, then y, then z
    return [("sorted-by-x-then-y-then-z", z3.Exists([keys], z3.And(T(c.res) == LEXSORT(keys, d),
                                                                  z3.ForAll([j], z3.Implies(z3.And(0 <= j, j < d), z3.Select(keys, j) == COL(a, d - 1 - j))))))]


contract(CF, "CoordsCollection._calc_sorting_order", props=("C19",),
         params={"self": ("ref", "CoordsCollection")}, result=("ref", "Obj"),
         requires=lambda c: [("2-or-3-dimensional", z3.Or(NCOLS(ROUNDED(T(c.self))) == 2, NCOLS(ROUNDED(T(c.self))) == 3))],
         ensures=sort_ensures)


# --- the sorted views: coordinates and weights are permuted by the canonical order (and by nothing else) ---
NP_TAKE = lambda a, idx: uf("NP_TAKE", Ref, Ref, Ref)(a, idx)
NP_ARRAY = z3.Function("NP_ARRAY", z3.ArraySort(I, z3.RealSort()), I, Ref)


def _canonical(order, a):
    """order is lexsort of a key sequence whose j-th key is column dims-1-j of a"""
    d = NCOLS(a)
    keys = z3.Const("keys!cv", z3.ArraySort(I, Ref))
    j = z3.Int("j!cv")
    return lambda mk: z3.Exists([keys], z3.And(mk(LEXSORT(keys, d)),
                                              z3.ForAll([j], z3.Implies(z3.And(0 <= j, j < d), z3.Select(keys, j) == COL(a, d - 1 - j)))))


def sorted_coords_ensures(c):
    a = ROUNDED(T(c.self))
    return [("rounded-coordinates-taken-in-canonical-order", _canonical(None, a)(lambda o: T(c.res) == NP_TAKE(a, o)))]


contract(CF, "CoordsCollection._sorted_coords", props=("C19",),
         params={"self": ("ref", "CoordsCollection")}, result=("ref", "Obj"),
         requires=lambda c: [("2-or-3-dimensional", z3.Or(NCOLS(ROUNDED(T(c.self))) == 2, NCOLS(ROUNDED(T(c.self))) == 3))],
         ensures=sorted_coords_ensures)

contract(CF, "CoordsCollection.sorted_coords", props=("C19",),
         params={"self": ("ref", "CoordsCollection")}, result=("ref", "Obj"),
         requires=lambda c: [("2-or-3-dimensional", z3.Or(NCOLS(ROUNDED(T(c.self))) == 2, NCOLS(ROUNDED(T(c.self))) == 3))],
         ensures=sorted_coords_ensures)

WF = "pulser-core/pulser/register/weight_maps.py"


def sorted_weights_ensures(c):
    from .limits import W_ARR, W_LEN
    a = ROUNDED(T(c.self))
    return [("weights-taken-in-the-canonical-order-of-their-traps",
             _canonical(None, a)(lambda o: T(c.res) == NP_TAKE(NP_ARRAY(W_ARR(T(c.self)), W_LEN(T(c.self))), o)))]


contract(WF, "WeightMap.sorted_weights", props=("C19",),
         params={"self": ("ref", "WeightMap")}, result=("ref", "Obj"),
         requires=lambda c: [("2-or-3-dimensional", z3.Or(NCOLS(ROUNDED(T(c.self))) == 2, NCOLS(ROUNDED(T(c.self))) == 3))],
         ensures=sorted_weights_ensures)
