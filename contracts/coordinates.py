"""C19 (core): the canonical trap order sorts by x, then y, then z: lexsort receives the columns in reverse order."""
import z3

from pyvc.contracts import Q, contract
from pyvc.core import I, Ref, uf
from .lib import T

CF = "pulser-core/pulser/register/_coordinates.py"
ROUNDED = lambda o: uf("CoordsCollection._rounded_coords", Ref, Ref)(o)
NCOLS = lambda a: uf("NP_COLS", Ref, I)(a)
COL = lambda a, i: uf("NP_COL", Ref, I, Ref)(a, i)
LEXSORT = z3.Function("NP_LEXSORT", z3.ArraySort(I, Ref), I, Ref)


def sort_ensures(c):
    a = ROUNDED(T(c.self))
    d = NCOLS(a)
    keys = z3.Const("keys!cs", z3.ArraySort(I, Ref))
    j = z3.Int("j!cs")
    # the result is lexsort of SOME key sequence of length dims whose j-th key is column dims-1-j: i.e. primary key x, then y, then z
    return [("sorted-by-x-then-y-then-z", z3.Exists([keys], z3.And(T(c.res) == LEXSORT(keys, d),
                                                                  z3.ForAll([j], z3.Implies(z3.And(0 <= j, j < d), z3.Select(keys, j) == COL(a, d - 1 - j))))))]


contract(CF, "CoordsCollection._calc_sorting_order", props=("C19",),
         params={"self": ("ref", "CoordsCollection")}, result=("ref", "Obj"),
         requires=lambda c: [("2-or-3-dimensional", z3.Or(NCOLS(ROUNDED(T(c.self))) == 2, NCOLS(ROUNDED(T(c.self))) == 3))],
         ensures=sort_ensures)
