"""C15 / C18 / C01 at the Sequence level: EOM parameter processing and the phase-drift bookkeeping of the EOM controls.

_process_eom_parameters   the off-detuning that is *stored and used* is the one the EOM configuration chose, and it (not the
                          requested optimum) was validated against the channel's limits.
modify_eom_setpoint       (built sequences) the phase correction covers, without gap or overlap, the time since the last
                          real pulse: old rate up to the start of the new buffer, new rate over the buffer.
"""
import z3

from pyvc.contracts import Q, contract, inline
from pyvc.core import B, I, PStr, R, Ref, uf
from .lib import T, fget, fnone, valid_channel_f
from .limits import ROUND6, absr

SQ = "pulser-core/pulser/sequence/sequence.py"
EO = "pulser-core/pulser/channels/eom.py"

CALC_DET_OFF = uf("CALC_DET_OFF", Ref, R, R, R, R)     # RydbergEOM.calculate_detuning_off(amp_on, detuning_on, optimal)[0]

contract(EO, "RydbergEOM.calculate_detuning_off", props=("C15", "C18"), trusted=True,
         note="numpy argmin over detuning_off_options (closest allowed option; its meaning is decided by the bounded stand-in); interface contract: a function of its arguments",
         params={"self": ("ref", "BaseEOM"), "amp_on": "real", "detuning_on": "real", "optimal_detuning_off": "real", "return_switching_beams": "bool"},
         result=("tuple", "real", "opaque"),
         requires=lambda c: [("asks-for-beams", T(c.return_switching_beams))],
         ensures=lambda c: [("is-the-chosen-option", T(c.res[0]) == CALC_DET_OFF(T(c.self), T(c.amp_on), T(c.detuning_on), T(c.optimal_detuning_off)))])


def within_det(ch, x):
    return z3.Or(fnone("Channel", "max_abs_detuning", ch), ROUND6(absr(x)) <= fget("Channel", "max_abs_detuning", ch))


def within_amp(ch, x):
    return z3.Or(fnone("Channel", "max_amp", ch), x <= fget("Channel", "max_amp", ch))


contract(SQ, "Sequence._process_eom_parameters", props=("C15", "C18", "C01"),
         params={"self": ("ref", "Sequence"), "channel_obj": ("ref", "Channel"), "amp_on": "real", "detuning_on": "real", "optimal_detuning_off": "real"},
         result=("tuple", "real", "opaque"),
         requires=lambda c: [("valid_channel", valid_channel_f(T(c.channel_obj))),
                             ("has-eom", z3.Not(fnone("Channel", "eom_config", T(c.channel_obj))))],
         ensures=lambda c: (lambda ch, res: [
             ("stored-off-detuning-is-the-chosen-one", res == CALC_DET_OFF(fget("Channel", "eom_config", ch), T(c.amp_on), T(c.detuning_on), T(c.optimal_detuning_off))),
             ("chosen-off-detuning-within-the-channel-limit", within_det(ch, res)),
             ("setpoint-within-the-channel-limits", z3.And(within_amp(ch, T(c.amp_on)), within_det(ch, T(c.detuning_on)), T(c.amp_on) >= 0)),
         ])(T(c.channel_obj), T(c.res[0])),
         raises={"ValueError": ("only-if", lambda c: z3.BoolVal(True))},
         modifies={},
         )


# --------------------------------------------------------------------------
# phase-drift bookkeeping (C15)
# --------------------------------------------------------------------------
from pyvc.core import Qid  # noqa: E402
from .lib import (cs_at, cs_chan, cs_len, eb_det_off, eb_ti, in_eom, s_tf, s_ti, s_targets, sch_get, sch_has)  # noqa: E402
from . import schedule as SC  # noqa: E402
from .sequence import BRINV, CS, SCH, building, fmt, last_phase, q_phase, qref, seq_wf  # noqa: E402

SCHF = "pulser-core/pulser/sequence/_schedule.py"
DRIFT = uf("DRIFT", R, I, R)        # phase accumulated at `rate` rad/us over `dt` ns: rate * dt * 1e-3 (defined where calc_phase_drift is verified)
pd_rate = lambda p: uf("_PhaseDriftParams.drift_rate", Ref, R)(p)
pd_ti = lambda p: uf("_PhaseDriftParams.ti", Ref, I)(p)

contract(SCHF, "_PhaseDriftParams.calc_phase_drift", props=("C15",),
         params={"self": ("ref", "_PhaseDriftParams"), "tf": "int"}, result="real",
         spec_defs=lambda c: [DRIFT(pd_rate(T(c.self)), T(c.tf) - pd_ti(T(c.self))) == pd_rate(T(c.self)) * z3.ToReal(T(c.tf) - pd_ti(T(c.self))) * z3.RealVal("0.001")],
         ensures=lambda c: [("rate-times-elapsed-time", T(c.res) == DRIFT(pd_rate(T(c.self)), T(c.tf) - pd_ti(T(c.self))))])

inline(SQ, "Sequence.get_duration")
inline(SQ, "Sequence._get_last_eom_pulse_phase_drift")


def mes_requires(c):
    h, seq = c.old, T(c.self)
    cs = CS(c)
    ch = cs_chan(cs)
    return seq_wf(c) + [
        ("declared", sch_has(h, SCH(c), T(c.channel))),
        ("has-eom", z3.Not(fnone("Channel", "eom_config", ch))),
        ("has-target", cs_len(h, cs) >= 1),
    ] + SC.INV(h, cs) + SC.EOMINV(h, cs) + [("within-max-sequence-duration", SC.MAXD(h, SCH(c), cs))] + SC.fad_requires(SC_ctx(c))[3:]


class SC_ctx:
    """the view a _Schedule method has of a Sequence-level context (self := the schedule, channel_id := channel)"""
    def __init__(self, c):
        self.__dict__.update(c.__dict__)
        from pyvc.core import Sym
        self.a = dict(c.a, self=Sym(SCH(c), ("ref", "_Schedule")), channel_id=c.a["channel"], channel=c.a["channel"])

    def __getattr__(self, k):
        return self.a[k]


HAS_REAL_PULSE = uf("HAS_REAL_PULSE", z3.ArraySort(I, Ref), I, B)     # some slot in [0, n) is a pulse that is not a detuned delay


def has_real_pulse_def(arr, n):
    return HAS_REAL_PULSE(arr, n) == z3.Not(SC.lps_none(arr, n, z3.BoolVal(True)))


def mes_ensures(c):
    h0, h1, seq = c.old, c.new, T(c.self)
    cs = CS(c)
    ch = cs_chan(cs)
    basis = fget("Channel", "basis", ch)
    n0, n1 = cs_len(h0, cs), cs_len(h1, cs)
    e0 = SC.eb_len(h0, cs)
    old_blk = SC.eb_at(h0, cs, e0 - 1)
    new_blk = SC.eb_at(h1, cs, e0)
    last0, last1 = cs_at(h0, cs, n0 - 1), cs_at(h1, cs, n1 - 1)
    arr0 = SC.cs_arr(h0, cs)
    ign = z3.BoolVal(True)          # the last *real* pulse (detuned delays ignored)
    L = SC.LPSI(arr0, n0, ign)
    last_pulse_tf = z3.If(HAS_REAL_PULSE(arr0, n0), s_tf(z3.Select(arr0, L)), 0)
    old_start = z3.If(eb_ti(old_blk) >= last_pulse_tf, eb_ti(old_blk), last_pulse_tf)
    t_switch, t_end = s_tf(last0), s_tf(last1)
    drift = DRIFT(-eb_det_off(old_blk), t_switch - old_start) + DRIFT(-eb_det_off(new_blk), t_end - t_switch)
    tg = s_targets(last1)
    tr0 = lambda qq: q_phase(h0, qref(h0, seq, basis, qq))
    q = z3.Const("q!mes", Qid)
    return [
        ("new-block-opened-with-the-processed-setpoint", z3.And(SC.eb_len(h1, cs) == e0 + 1, SC.eb_rabi(new_blk) == T(c.amp_on), SC.eb_don(new_blk) == T(c.detuning_on),
                                                                eb_det_off(new_blk) == CALC_DET_OFF(fget("Channel", "eom_config", ch), T(c.amp_on), T(c.detuning_on), T(c.optimal_detuning_off)))),
        ("still-in-eom-mode", in_eom(h1, cs)),
        ("drift-window-is-contiguous", z3.Implies(T(c.correct_phase_drift), z3.ForAll([q], z3.Implies(z3.Select(tg, q),
            last_phase(h1, tr0(q)) == fmt(last_phase(h0, tr0(q)) + (-drift))), patterns=[qref(h0, seq, basis, q)]))),
        ("no-correction-unless-asked", z3.Implies(z3.Not(T(c.correct_phase_drift)), z3.ForAll([q], z3.Implies(z3.Select(tg, q),
            last_phase(h1, tr0(q)) == last_phase(h0, tr0(q))), patterns=[qref(h0, seq, basis, q)]))),
        ("within-max-sequence-duration", SC.MAXD(h1, SCH(c), cs)),
    ] + [(f"INV.{nm}", cl) for nm, cl in SC.INV(h1, cs)] + [(f"BRINV.{nm}", cl) for nm, cl in BRINV(h1, seq)]


from .sequence import BR_PHASES, BR_TIMES, add_touched_trackers  # noqa: E402


def mes_touched_trackers(c):
    h0, seq = c.old, T(c.self)
    cs = CS(c)
    basis = fget("Channel", "basis", cs_chan(cs))
    q = z3.Const("q!mt", Qid)
    return lambda r: z3.Exists([q], z3.And(z3.Select(SC.qids_of(h0, seq) if False else z3.K(Qid, True), q), r == q_phase(h0, qref(h0, seq, basis, q))))


contract(SQ, "Sequence.modify_eom_setpoint", props=("C15",), lemmas=lambda c: mes_lemmas(c),
         params={"self": ("ref", "Sequence"), "channel": "str", "amp_on": "real", "detuning_on": "real", "optimal_detuning_off": "real", "correct_phase_drift": "bool"},
         requires=mes_requires,
         ensures=mes_ensures,
         spec_defs=lambda c: [SC.lpsi_def(SC.cs_arr(c.old, CS(c)), cs_len(c.old, CS(c)), z3.BoolVal(True)), SC.lpsi_def(SC.cs_arr(c.old, CS(c)), cs_len(c.old, CS(c)), z3.BoolVal(False)),
                              has_real_pulse_def(SC.cs_arr(c.old, CS(c)), cs_len(c.old, CS(c)))],
         raises={"ValueError": ("only-if", lambda c: z3.BoolVal(True)), "RuntimeError": ("only-if", lambda c: z3.BoolVal(True))},
         modifies={SC.SLOTS: lambda c: [CS(c)], SC.EBLOCKS: lambda c: [CS(c)], "_EOMSettings.tf": None, "$alloc": None,
                   BR_TIMES: mes_touched_trackers, BR_PHASES: mes_touched_trackers, "Sequence._calls": lambda c: [T(c.self)], "Sequence._to_build_calls": lambda c: [T(c.self)]},
         exc_safe=False,
         slices={"drift-window-is-contiguous": ("targets-shifted-additively", "built-case", "schedule-is-always", "frame", "blocks-kept", "earlier-blocks-kept", "L-lpsi-agree", "lemma", "eom.well-ordered", "eom-blocks-wf")},
         )


# --------------------------------------------------------------------------
# Lemma L-lpsi-agree: the index of the most recent matching pulse slot only depends on the slots it ranges over
# --------------------------------------------------------------------------
from pyvc.contracts import lemma  # noqa: E402
from .lib import LPSI, SlotArr, lps_match, lpsi_def  # noqa: E402


def _agree(a, b, n):
    k = z3.Int("k!ag")
    return z3.And(z3.ForAll([k], z3.Implies(z3.And(0 <= k, k < n), z3.Select(a, k) == z3.Select(b, k)), patterns=[z3.Select(a, k)]),
                  z3.ForAll([k], z3.Implies(z3.And(0 <= k, k < n), z3.Select(a, k) == z3.Select(b, k)), patterns=[z3.Select(b, k)]))


def lpsi_agree_concl(a, b):
    return Q([I, B], lambda n, ign: (
        z3.And(_agree(a, b, n), lpsi_def(a, n, ign), lpsi_def(b, n, ign), 0 <= LPSI(a, n, ign), LPSI(a, n, ign) < n, lps_match(a, LPSI(a, n, ign), ign)),
        LPSI(a, n, ign) == LPSI(b, n, ign)), pats=lambda n, ign: [(LPSI(a, n, ign), LPSI(b, n, ign))])


def _lpsi_agree_build():
    a, b = z3.Const("a!LA", SlotArr), z3.Const("b!LA", SlotArr)
    return [], lpsi_agree_concl(a, b), lambda n, ign: []


lemma("L-lpsi-agree", _lpsi_agree_build,
      "two slot arrays that agree on [0, n) have the same most recent matching pulse slot (LPSI is characterised as the last matching index)")


def lpsi_extend_concl(a, b):
    """b agrees with a on [0, n) and has no matching slot in [n, m): same most recent matching slot"""
    k = z3.Int("k!le")
    return Q([I, I, B], lambda n, m, ign: (
        z3.And(_agree(a, b, n), n <= m, lpsi_def(a, n, ign), lpsi_def(b, m, ign), 0 <= LPSI(a, n, ign), LPSI(a, n, ign) < n, lps_match(a, LPSI(a, n, ign), ign),
               z3.ForAll([k], z3.Implies(z3.And(n <= k, k < m), z3.Not(lps_match(b, k, ign))), patterns=[z3.Select(b, k)])),
        LPSI(b, m, ign) == LPSI(a, n, ign)), pats=lambda n, m, ign: [(LPSI(a, n, ign), LPSI(b, m, ign))])


def _lpsi_extend_build():
    a, b = z3.Const("a!LE", SlotArr), z3.Const("b!LE", SlotArr)
    return [], lpsi_extend_concl(a, b), lambda n, m, ign: []


lemma("L-lpsi-extend", _lpsi_extend_build,
      "appending slots that do not match (delays, detuned delays) does not change the most recent matching pulse slot")


def dem_lemmas(c):
    a0 = SC.cs_arr(c.old, CS(c))
    n0 = cs_len(c.old, CS(c))
    b = z3.Const("b!deml", SlotArr)
    m, ign = z3.Int("m!deml"), z3.Bool("ign!deml")
    prem, concl = lpsi_extend_concl(a0, b).body(n0, m, ign)
    return [("L-lpsi-extend", z3.ForAll([b, m, ign], z3.Implies(prem, concl), patterns=[z3.MultiPattern(LPSI(b, m, ign), LPSI(a0, n0, ign))]))]


def mes_lemmas(c):
    """instances of L-lpsi-agree between the entry array of the channel and any later array of it"""
    a0 = SC.cs_arr(c.old, CS(c))
    b = z3.Const("b!mesl", SlotArr)
    n, ign = z3.Int("n!mesl"), z3.Bool("ign!mesl")
    prem, concl = lpsi_agree_concl(b, a0).body(n, ign)
    return [("L-lpsi-agree", z3.ForAll([b, n, ign], z3.Implies(prem, concl), patterns=[z3.MultiPattern(LPSI(b, n, ign), LPSI(a0, n, ign))]))]


# --------------------------------------------------------------------------
# enable_eom_mode (C15): the drift correction covers exactly the start buffer (the only time the off-detuning is applied before the block starts)
# --------------------------------------------------------------------------
def eem_requires(c):
    h, seq = c.old, T(c.self)
    cs = CS(c)
    return seq_wf(c) + [
        ("declared", sch_has(h, SCH(c), T(c.channel))),
        ("has-target", cs_len(h, cs) >= 1),
    ] + SC.INV(h, cs) + SC.EOMINV(h, cs) + [("within-max-sequence-duration", SC.MAXD(h, SCH(c), cs))] + SC.fad_requires(SC_ctx(c))[3:]


def eem_ensures(c):
    h0, h1, seq = c.old, c.new, T(c.self)
    cs = CS(c)
    ch = cs_chan(cs)
    basis = fget("Channel", "basis", ch)
    n0, n1 = cs_len(h0, cs), cs_len(h1, cs)
    e0 = SC.eb_len(h0, cs)
    new_blk = SC.eb_at(h1, cs, e0)
    last0, last1 = cs_at(h0, cs, n0 - 1), cs_at(h1, cs, n1 - 1)
    no_buffer = s_tf(last0) == 0
    buffer_len = z3.If(no_buffer, 0, s_tf(last1) - s_ti(last1))
    drift = DRIFT(-eb_det_off(new_blk), buffer_len)
    tg = s_targets(last1)
    tr0 = lambda qq: q_phase(h0, qref(h0, seq, basis, qq))
    q = z3.Const("q!eem", Qid)
    return [
        ("was-not-in-eom-mode-and-has-an-eom", z3.And(z3.Not(in_eom(h0, cs)), z3.Not(fnone("Channel", "eom_config", ch)))),
        ("block-opened-with-the-processed-setpoint", z3.And(SC.eb_len(h1, cs) == e0 + 1, SC.eb_rabi(new_blk) == T(c.amp_on), SC.eb_don(new_blk) == T(c.detuning_on),
                                                            eb_det_off(new_blk) == CALC_DET_OFF(fget("Channel", "eom_config", ch), T(c.amp_on), T(c.detuning_on), T(c.optimal_detuning_off)))),
        ("in-eom-mode-afterwards", in_eom(h1, cs)),
        ("drift-window-is-the-buffer", z3.Implies(T(c.correct_phase_drift), z3.ForAll([q], z3.Implies(z3.Select(tg, q),
            last_phase(h1, tr0(q)) == fmt(last_phase(h0, tr0(q)) + (-drift))), patterns=[qref(h0, seq, basis, q)]))),
        ("no-correction-unless-asked", z3.Implies(z3.Not(T(c.correct_phase_drift)), z3.ForAll([q], z3.Implies(z3.Select(tg, q),
            last_phase(h1, tr0(q)) == last_phase(h0, tr0(q))), patterns=[qref(h0, seq, basis, q)]))),
        ("within-max-sequence-duration", SC.MAXD(h1, SCH(c), cs)),
    ] + [(f"INV.{nm}", cl) for nm, cl in SC.INV(h1, cs)] + [(f"BRINV.{nm}", cl) for nm, cl in BRINV(h1, seq)]


contract(SQ, "Sequence.enable_eom_mode", props=("C15", "C13"),
         params={"self": ("ref", "Sequence"), "channel": "str", "amp_on": "real", "detuning_on": "real", "optimal_detuning_off": "real", "correct_phase_drift": "bool"},
         requires=eem_requires,
         ensures=eem_ensures,
         spec_defs=lambda c: [SC.lpsi_def(SC.cs_arr(c.old, CS(c)), cs_len(c.old, CS(c)), z3.BoolVal(False))],
         raises={"ValueError": ("only-if", lambda c: z3.BoolVal(True)), "RuntimeError": ("only-if", lambda c: z3.BoolVal(True)), "TypeError": ("only-if", lambda c: z3.BoolVal(True))},
         modifies={SC.SLOTS: lambda c: [CS(c)], SC.EBLOCKS: lambda c: [CS(c)], "$alloc": None,
                   BR_TIMES: mes_touched_trackers, BR_PHASES: mes_touched_trackers, "Sequence._calls": lambda c: [T(c.self)], "Sequence._to_build_calls": lambda c: [T(c.self)]},
         exc_safe=False,
         slices={"drift-window-is-the-buffer": ("targets-shifted-additively", "built-case", "schedule-is-always", "frame", "blocks-kept", "earlier-blocks-kept", "lemma",
                                                "INV.monotone", "INV.contiguous", "INV.boundaries-nonneg", "INV.first-is-initial-target", "INV.len>=0", "eom.well-ordered", "eom-blocks-wf")},
         )


# --------------------------------------------------------------------------
# disable_eom_mode (C15): closes the block at the channel's end; the correction covers the time since the last real pulse (or the block's start)
# --------------------------------------------------------------------------
def dem_requires(c):
    h, seq = c.old, T(c.self)
    cs = CS(c)
    return seq_wf(c) + [
        ("declared", sch_has(h, SCH(c), T(c.channel))),
        ("has-target", cs_len(h, cs) >= 1),
    ] + SC.INV(h, cs) + SC.EOMINV(h, cs) + [("within-max-sequence-duration", SC.MAXD(h, SCH(c), cs))]


def dem_ensures(c):
    h0, h1, seq = c.old, c.new, T(c.self)
    cs = CS(c)
    ch = cs_chan(cs)
    basis = fget("Channel", "basis", ch)
    n0, n1 = cs_len(h0, cs), cs_len(h1, cs)
    e0 = SC.eb_len(h0, cs)
    blk = SC.eb_at(h0, cs, e0 - 1)
    last0, last1 = cs_at(h0, cs, n0 - 1), cs_at(h1, cs, n1 - 1)
    arr0 = SC.cs_arr(h0, cs)
    L = SC.LPSI(arr0, n0, z3.BoolVal(True))
    last_pulse_tf = z3.If(HAS_REAL_PULSE(arr0, n0), s_tf(z3.Select(arr0, L)), 0)
    start = z3.If(eb_ti(blk) >= last_pulse_tf, eb_ti(blk), last_pulse_tf)
    t_close = s_tf(last0)
    drift = DRIFT(-eb_det_off(blk), t_close - start)
    tg = s_targets(last1)
    tr0 = lambda qq: q_phase(h0, qref(h0, seq, basis, qq))
    q = z3.Const("q!dem", Qid)
    return [
        ("was-in-eom-mode", in_eom(h0, cs)),
        ("block-closed-at-the-channel-end", z3.And(SC.eb_len(h1, cs) == e0, z3.Not(SC.eb_tf_none(h1, blk)), SC.eb_tf(h1, blk) == t_close, z3.Not(in_eom(h1, cs)))),
        # proof steps (checked, then available to the drift clause): the block is closed at the old channel end; appending the end buffer does not
        # change which slot is the last real pulse
        ("assert:block-closed-at-the-old-channel-end", z3.And(z3.Not(SC.eb_tf_none(h1, blk)), SC.eb_tf(h1, blk) == t_close)),
        ("assert:same-last-real-pulse", z3.Implies(z3.And(T(c.correct_phase_drift), HAS_REAL_PULSE(arr0, n0)), z3.And(
            SC.LPSI(SC.cs_arr(h1, cs), n1, z3.BoolVal(True)) == L, z3.Select(SC.cs_arr(h1, cs), L) == z3.Select(arr0, L), 0 <= L, L < n0))),
        ("drift-window-ends-with-the-block", z3.Implies(T(c.correct_phase_drift), z3.ForAll([q], z3.Implies(z3.Select(tg, q),
            last_phase(h1, tr0(q)) == fmt(last_phase(h0, tr0(q)) + (-drift))), patterns=[qref(h0, seq, basis, q)]))),
        ("no-correction-unless-asked", z3.Implies(z3.Not(T(c.correct_phase_drift)), z3.ForAll([q], z3.Implies(z3.Select(tg, q),
            last_phase(h1, tr0(q)) == last_phase(h0, tr0(q))), patterns=[qref(h0, seq, basis, q)]))),
        ("within-max-sequence-duration", SC.MAXD(h1, SCH(c), cs)),
    ] + [(f"INV.{nm}", cl) for nm, cl in SC.INV(h1, cs)] + [(f"BRINV.{nm}", cl) for nm, cl in BRINV(h1, seq)]


contract(SQ, "Sequence.disable_eom_mode", props=("C15", "C13"), lemmas=lambda c: mes_lemmas(c) + dem_lemmas(c),
         params={"self": ("ref", "Sequence"), "channel": "str", "correct_phase_drift": "bool"},
         requires=dem_requires,
         ensures=dem_ensures,
         spec_defs=lambda c: [SC.lpsi_def(SC.cs_arr(c.old, CS(c)), cs_len(c.old, CS(c)), z3.BoolVal(True)), SC.lpsi_def(SC.cs_arr(c.old, CS(c)), cs_len(c.old, CS(c)), z3.BoolVal(False)),
                              has_real_pulse_def(SC.cs_arr(c.old, CS(c)), cs_len(c.old, CS(c)))],
         raises={"ValueError": ("only-if", lambda c: z3.BoolVal(True)), "RuntimeError": ("only-if", lambda c: z3.BoolVal(True))},
         modifies={SC.SLOTS: lambda c: [CS(c)], "_EOMSettings.tf": None, "$alloc": None,
                   BR_TIMES: mes_touched_trackers, BR_PHASES: mes_touched_trackers, "Sequence._calls": lambda c: [T(c.self)], "Sequence._to_build_calls": lambda c: [T(c.self)]},
         exc_safe=False,
         slices={"same-last-real-pulse": ("L-lpsi-extend", "L-lpsi-agree", "lemma", "appended-slots-are-no-real-pulses", "is-most-recent-matching-slot", "index-in-range", "matches", "none-later",
                                          "INV.len>=0"),
                 "drift-window-ends-with-the-block": ("assert:", "targets-shifted-additively", "built-case", "schedule-is-always", "frame", "blocks-kept", "lemma", "L-lpsi-agree", "L-lpsi-extend", "appended-slots-are-no-real-pulses",
                                                      "INV.monotone", "INV.contiguous", "INV.boundaries-nonneg", "INV.first-is-initial-target", "INV.len>=0", "eom.well-ordered", "eom-blocks-wf")},
         )


# --------------------------------------------------------------------------
# add_eom_pulse (C15): square pulse with the block's setpoint; the drift since the last real pulse is taken off the pulse's phase and off the reference
# --------------------------------------------------------------------------
from .sequence import add_requires, _isinst, _cval, P_AMP, P_DET, P_PPS, is_dmm  # noqa: E402
from .lib import PULSE, p_duration, p_phase, s_kind, s_pulse, clock, min_dur  # noqa: E402


class AEP_ctx:
    """the view Sequence._add has of an add_eom_pulse context (the pulse itself is built inside; its clauses are dropped)"""
    def __init__(self, c):
        self.__dict__.update(c.__dict__)

    def __getattr__(self, k):
        return self.a[k]


def aep_requires(c):
    h = c.old
    cs = CS(c)
    drop = ("valid-pulse",)
    from pyvc.core import Sym
    c2 = AEP_ctx(c)
    c2.a = dict(c.a, pulse=Sym(z3.Const("noPulse!aep", Ref), ("ref", "Pulse")))
    return [cl for cl in add_requires(c2) if cl[0] not in drop] + SC.EOMINV(h, cs) + [("not-a-dmm", z3.Not(is_dmm(cs_chan(cs))))]


def aep_ensures(c):
    h0, h1, seq = c.old, c.new, T(c.self)
    cs = CS(c)
    ch = cs_chan(cs)
    basis = fget("Channel", "basis", ch)
    n0, n1 = cs_len(h0, cs), cs_len(h1, cs)
    e0 = SC.eb_len(h0, cs)
    blk = SC.eb_at(h0, cs, e0 - 1)
    last0, new = cs_at(h0, cs, n0 - 1), cs_at(h1, cs, n1 - 1)
    sp = s_pulse(new)
    arr0 = SC.cs_arr(h0, cs)
    L = SC.LPSI(arr0, n0, z3.BoolVal(True))
    last_pulse_tf = z3.If(HAS_REAL_PULSE(arr0, n0), s_tf(z3.Select(arr0, L)), 0)
    start = z3.If(eb_ti(blk) >= last_pulse_tf, eb_ti(blk), last_pulse_tf)
    drift = DRIFT(-eb_det_off(blk), s_ti(new) - start)
    tg = s_targets(last0)
    tr0 = lambda qq: q_phase(h0, qref(h0, seq, basis, qq))
    q = z3.Const("q!aep", Qid)
    ref = lambda qq: z3.If(last_phase(h0, tr0(qq)) == 0, 0, last_phase(h0, tr0(qq)))
    d = T(c.duration)
    return [
        ("was-in-eom-mode", in_eom(h0, cs)),
        ("appends-a-pulse-slot-on-the-same-targets", z3.And(n1 >= n0 + 1, n1 <= n0 + 2, s_kind(new) == PULSE, s_targets(new) == tg)),
        ("square-pulse-with-the-block's-setpoint", z3.And(_isinst(P_AMP(sp), "ConstantWaveform"), _isinst(P_DET(sp), "ConstantWaveform"),
                                                          _cval(P_AMP(sp)) == SC.eb_rabi(blk), _cval(P_DET(sp)) == SC.eb_don(blk))),
        ("duration-is-validated", z3.And(p_duration(sp) >= d, p_duration(sp) < d + clock(ch), p_duration(sp) >= min_dur(ch))),
        ("phase-is-programmed-plus-reference-minus-drift", z3.ForAll([q], z3.Implies(z3.Select(tg, q), p_phase(sp) == z3.If(
            T(c.correct_phase_drift), fmt(fmt(fmt(T(c.phase)) + ref(q)) - drift), fmt(fmt(T(c.phase)) + ref(q)))), patterns=[qref(h0, seq, basis, q)])),
        ("drift-since-the-last-real-pulse-taken-off-the-reference", z3.Implies(T(c.correct_phase_drift), z3.ForAll([q], z3.Implies(z3.Select(tg, q),
            z3.If(fmt(fmt(T(c.post_phase_shift))) - drift != 0, last_phase(h1, tr0(q)) == fmt(last_phase(h0, tr0(q)) + (fmt(fmt(T(c.post_phase_shift))) - drift)),
                  last_phase(h1, tr0(q)) == last_phase(h0, tr0(q)))), patterns=[qref(h0, seq, basis, q)]))),
        ("still-in-eom-mode", in_eom(h1, cs)),
        ("within-max-sequence-duration", SC.MAXD(h1, SCH(c), cs)),
    ] + [(f"INV.{nm}", cl) for nm, cl in SC.INV(h1, cs)] + [(f"BRINV.{nm}", cl) for nm, cl in BRINV(h1, seq)]


def aep_touched_refs(c):
    h0, seq = c.old, T(c.self)
    cs = CS(c)
    basis = fget("Channel", "basis", cs_chan(cs))
    q = z3.Const("q!ar", Qid)
    return lambda r: z3.Exists([q], r == qref(h0, seq, basis, q))


contract(SQ, "Sequence.add_eom_pulse", props=("C15", "C13"),
         params={"self": ("ref", "Sequence"), "channel": "str", "duration": "int", "phase": "real", "post_phase_shift": "real", "protocol": "str", "correct_phase_drift": "bool"},
         requires=aep_requires,
         ensures=aep_ensures,
         spec_defs=lambda c: [SC.lpsi_def(SC.cs_arr(c.old, CS(c)), cs_len(c.old, CS(c)), z3.BoolVal(True)), SC.lpsi_def(SC.cs_arr(c.old, CS(c)), cs_len(c.old, CS(c)), z3.BoolVal(False)),
                              has_real_pulse_def(SC.cs_arr(c.old, CS(c)), cs_len(c.old, CS(c)))],
         raises={"ValueError": ("only-if", lambda c: z3.BoolVal(True)), "RuntimeError": ("only-if", lambda c: z3.BoolVal(True)), "TypeError": ("only-if", lambda c: z3.BoolVal(True))},
         modifies={SC.SLOTS: lambda c: [CS(c)], "_QubitRef.last_used": aep_touched_refs, BR_TIMES: mes_touched_trackers, BR_PHASES: mes_touched_trackers, "$alloc": None,
                   "Sequence._calls": lambda c: [T(c.self)], "Sequence._to_build_calls": lambda c: [T(c.self)], "Sequence._empty_sequence": lambda c: [T(c.self)]},
         exc_safe=False,
         slices={"phase-is-programmed-plus-reference-minus-drift": ("drift-corrected-phase", "phase-is-programmed-plus-reference", "phase-in-range", "phase-unchanged", "frame", "L-lpsi", "lemma", "eom.well-ordered", "eom-blocks-wf"),
                 "drift-since-the-last-real-pulse-taken-off-the-reference": ("drift-taken-off-the-reference", "post-phase-shift-applied", "frame", "L-lpsi", "lemma", "eom.well-ordered", "eom-blocks-wf")},
         lemmas=lambda c: mes_lemmas(c),
         )
