"""Expression evaluation (mixin for Interp)."""
from __future__ import annotations

import ast

import z3

from .core import (B, I, R, SHAPES, BoundMethod, Closure, FuncRef, ListLoc, Opaque, OptV,
                   OutOfSubset, PyList, Qid, Ref, SeqV, SlotTy, Sym, fresh, is_ref_ty,
                   isinstance_term, sort_of, str_const, to_real, znum)
from .interp import Exc, MapLoc

MODULE_NAMES = {"np", "pm", "warnings", "math", "json", "itertools", "functools", "dataclasses",
                "pulser", "copy", "inspect", "seq_decorators"}
BUILTIN_FUNCS = {"dict", "replace", "map", "slice", "chain", "wraps", "int", "float", "bool", "len", "abs", "max", "min", "sum", "set", "tuple", "list",
                 "dict", "sorted", "any", "all", "round", "isinstance", "hasattr", "getattr", "cast",
                 "range", "enumerate", "zip", "reversed", "str", "type", "repr", "print", "get_args",
                 "super", "object", "frozenset", "iter", "next", "id"}


def py_floor_div(a, b):
    """Python // on Ints for b != 0 (floor)."""
    # z3 int div is euclidean: for b>0 it is floor.  General:
    return z3.If(b > 0, a / b, -((-a) / (-b)) if False else z3.If(a % b == 0, a / b, z3.If(b > 0, a / b, (a / b) - 1 + 1)))


def py_mod(a, b):
    """Python % on Ints: result has the sign of b."""
    m = a % b  # euclidean: 0 <= m < |b|
    return z3.If(z3.Or(b > 0, m == 0), m, m + b)


def py_fdiv(a, b):
    m = py_mod(a, b)
    # a = b*q + m  =>  q = (a - m)/b exactly
    return z3.If(b > 0, a / b, z3.If(a % b == 0, a / b, a / b + 1 - 1 - 0) if False else (a - m) / b)


class ExprMixin:
    # ------------------------------------------------------------------ eval
    def eval(self, e, st):
        m = getattr(self, "ev_" + type(e).__name__, None)
        if m is None:
            raise OutOfSubset(f"expression {type(e).__name__}", e)
        return m(e, st)

    def ev_Constant(self, e, st):
        v = e.value
        if v is Ellipsis:
            return [(Opaque("..."), st)]
        return [(v, st)]

    def ev_JoinedStr(self, e, st):
        return [(Opaque("fstring"), st)]

    def ev_Name(self, e, st):
        if e.id in st.env:
            return [(st.env[e.id], st)]
        return [(self.global_name(e.id, e), st)]

    def global_name(self, name, node=None):
        if name in ("True", "False", "None"):
            return {"True": True, "False": False, "None": None}[name]
        if name in MODULE_NAMES:
            return FuncRef(name, "module")
        if name in SHAPES or name in self.src.classes:
            return FuncRef(name, "class")
        if name in BUILTIN_FUNCS:
            return FuncRef(name, "builtin")
        if name in ("Collection", "Tuple", "Union", "Optional", "Any", "List", "Dict", "Sequence_", "Iterable", "Mapping", "Type", "Callable", "Literal"):
            return FuncRef(name, "typing")
        from .interp import EXC_PARENTS
        if name in EXC_PARENTS or name.endswith("Error") or name.endswith("Warning"):
            return FuncRef(name, "exc")
        # module-level function or constant in the current file
        fd = self.src.find(self.file, name)
        if isinstance(fd, ast.FunctionDef):
            return FuncRef(name, "func")
        cv = self.src.module_const(self.file, name)
        if cv is not None:
            try:
                return ast.literal_eval(cv)
            except Exception:
                pass
            if isinstance(cv, ast.Subscript) and isinstance(cv.value, ast.Name) and cv.value.id == "Literal":
                try:
                    v = ast.literal_eval(cv.slice)
                    return tuple(v) if isinstance(v, tuple) else (v,)
                except Exception:
                    pass
            if name in self.models.get("__consts__", {}):
                return self.models["__consts__"][name]
        if name in self.models.get("__consts__", {}):
            return self.models["__consts__"][name]
        if name in self.models:
            return FuncRef(name, "func")
        imp = self.imported_const(name)
        if imp is not None:
            return imp
        raise OutOfSubset(f"unknown global name {name}", node)

    def imported_const(self, name):
        """Follow `from pulser.x import NAME` to a literal module constant in the real source."""
        mod, _ = self.src.load(self.file)
        import os
        for n in mod.body:
            if isinstance(n, ast.ImportFrom) and n.module and any(a.name == name for a in n.names):
                parts = n.module.split(".")
                for root in ("pulser-core", "pulser-simulation"):
                    for cand in (os.path.join(root, *parts) + ".py", os.path.join(root, *parts, "__init__.py")):
                        if os.path.exists(os.path.join(self.src.root, cand)):
                            cv = self.src.module_const(cand, name)
                            if cv is not None:
                                try:
                                    return ast.literal_eval(cv)
                                except Exception:
                                    return None
        return None

    def ev_Tuple(self, e, st):
        if any(isinstance(x, ast.Starred) for x in e.elts):
            raise OutOfSubset("starred in tuple", e)
        return [(tuple(vs) if not isinstance(vs, Exc) else vs, s) for vs, s in self.eval_list(e.elts, st)]

    def ev_List(self, e, st):
        if any(isinstance(x, ast.Starred) for x in e.elts):
            raise OutOfSubset("starred in list", e)
        return [(PyList(vs, "list") if not isinstance(vs, Exc) else vs, s) for vs, s in self.eval_list(e.elts, st)]

    def ev_Set(self, e, st):
        def mk(vs, s):
            return [(self.make_qset(vs, s), s)]
        return self.bind(self.eval_list(e.elts, st), mk)

    def make_qset(self, items, st):
        arr = z3.K(Qid, z3.BoolVal(False))
        for it in items:
            if isinstance(it, Sym) and it.ty == "qid":
                arr = z3.Store(arr, it.t, z3.BoolVal(True))
            else:
                return PyList(items, "set")
        return Sym(arr, "qset")

    def ev_Dict(self, e, st):
        if not e.keys:
            return [(PyList([], "dict"), st)]
        keys = []
        for k in e.keys:
            if not (isinstance(k, ast.Constant) and isinstance(k.value, str)):
                raise OutOfSubset("dict literal with non-literal keys", e)
            keys.append(k.value)

        def mk(vs, s):
            return [(PyDict(dict(zip(keys, vs))), s)]
        return self.bind(self.eval_list(e.values, st), mk)

    def ev_Lambda(self, e, st):
        return [(Closure(e, dict(st.env), None), st)]

    def ev_NamedExpr(self, e, st):
        def f(v, s):
            s.env[e.target.id] = v
            return [(v, s)]
        return self.bind(self.eval(e.value, st), f)

    def ev_IfExp(self, e, st):
        def f(c, s):
            out = []
            for side, s2 in self.branch(self.truth(c, s), s, "ifexp"):
                out += self.eval(e.body if side else e.orelse, s2)
            return out
        return self.bind(self.eval(e.test, st), f)

    def ev_BoolOp(self, e, st):
        is_and = isinstance(e.op, ast.And)

        def go(i, s):
            def f(v, s1):
                if i == len(e.values) - 1:
                    return [(v, s1)]
                t = self.truth(v, s1)
                out = []
                for side, s2 in self.branch(t, s1, "and" if is_and else "or"):
                    if side == is_and:
                        out += go(i + 1, s2)
                    else:
                        out.append((v, s2))
                return out
            return self.bind(self.eval(e.values[i], s), f)
        res = go(0, st)
        return res

    def ev_UnaryOp(self, e, st):
        def f(v, s):
            if isinstance(e.op, ast.Not):
                t = self.truth(v, s)
                return [((not t) if isinstance(t, bool) else Sym(z3.Not(t), "bool"), s)]
            if isinstance(e.op, ast.USub):
                if isinstance(v, (int, float)) and not isinstance(v, bool):
                    return [(-v, s)]
                v2 = self.unopt(v, s, e)
                t, k = znum(v2)
                return [(Sym(-t, k), s)]
            if isinstance(e.op, ast.UAdd):
                return [(v, s)]
            raise OutOfSubset("unary op", e)
        return self.bind(self.eval(e.operand, st), f)

    def unopt(self, v, st, node=None):
        """Use an Optional value as a plain one: obligation that it is not None."""
        if isinstance(v, OptV):
            self.oblige(st, f"safe:not-none@{self.ntag(node)}", z3.Not(v.none), "safety")
            st.assume(z3.Not(v.none))
            return v.val
        if v is None:
            self.oblige(st, f"safe:not-none@{self.ntag(node)}", z3.BoolVal(False), "safety")
        return v

    def ev_BinOp(self, e, st):
        def f(vs, s):
            return self.binop(e.op, vs[0], vs[1], s, e)
        return self.bind(self.eval_list([e.left, e.right], st), f)

    def binop(self, op, a, b, st, node=None):
        # concrete
        if isinstance(a, (int, float)) and isinstance(b, (int, float)) and not isinstance(op, (ast.BitAnd, ast.BitOr)):
            try:
                r = {ast.Add: lambda: a + b, ast.Sub: lambda: a - b, ast.Mult: lambda: a * b,
                     ast.Div: lambda: a / b, ast.FloorDiv: lambda: a // b, ast.Mod: lambda: a % b,
                     ast.Pow: lambda: a ** b}[type(op)]()
            except ZeroDivisionError:
                return [(Exc("ZeroDivisionError"), st)]
            except KeyError:
                raise OutOfSubset("binop", node)
            return [(r, st)]
        if isinstance(a, Opaque) or isinstance(b, Opaque) or isinstance(a, str) or isinstance(b, str):
            if isinstance(op, (ast.Add, ast.Mod)):
                return [(Opaque("str"), st)]
        # sets
        if isinstance(a, Sym) and a.ty == "qset" and isinstance(b, Sym) and b.ty == "qset":
            q = z3.Const("q!s", Qid)
            if isinstance(op, ast.BitAnd):
                return [(Sym(z3.Lambda([q], z3.And(z3.Select(a.t, q), z3.Select(b.t, q))), "qset"), st)]
            if isinstance(op, ast.BitOr):
                return [(Sym(z3.Lambda([q], z3.Or(z3.Select(a.t, q), z3.Select(b.t, q))), "qset"), st)]
            if isinstance(op, ast.Sub):
                return [(Sym(z3.Lambda([q], z3.And(z3.Select(a.t, q), z3.Not(z3.Select(b.t, q)))), "qset"), st)]
        # numpy elementwise arithmetic (A-NUMPY): array (+,-,*,/) scalar-or-array
        if isinstance(a, SeqV) or isinstance(b, SeqV):
            if isinstance(op, (ast.Add, ast.Sub, ast.Mult, ast.Div)) and not isinstance(a, (PyList, ListLoc)) and not isinstance(b, (PyList, ListLoc)):
                return [(self.array_arith(op, a, b, st, node), st)]
        # lists concat
        if isinstance(a, PyList) and isinstance(b, PyList) and isinstance(op, ast.Add):
            return [(PyList(a.items + b.items, a.kind), st)]
        a = self.unopt(a, st, node)
        b = self.unopt(b, st, node)
        ta, ka = znum(a)
        tb, kb = znum(b)
        if isinstance(op, ast.Div):
            self.oblige(st, f"safe:div-nonzero@{self.ntag(node)}", tb != 0, "safety")
            return [(Sym(to_real(ta) / to_real(tb), "real"), st)]
        if ka == "int" and kb == "int":
            if isinstance(op, ast.Add):
                return [(Sym(ta + tb, "int"), st)]
            if isinstance(op, ast.Sub):
                return [(Sym(ta - tb, "int"), st)]
            if isinstance(op, ast.Mult):
                return [(Sym(ta * tb, "int"), st)]
            if isinstance(op, (ast.Mod, ast.FloorDiv)):
                out = []
                for side, s2 in self.branch(tb == 0, st, "divzero"):
                    if side:
                        out.append((Exc("ZeroDivisionError"), s2))
                    else:
                        # Python floor semantics
                        m = ta % tb
                        pm_ = z3.If(z3.Or(tb > 0, m == 0), m, m + tb)
                        if isinstance(op, ast.Mod):
                            out.append((Sym(pm_, "int"), s2))
                        else:
                            out.append((Sym(z3.If(tb > 0, ta / tb, (ta - pm_) / tb), "int"), s2))
                return out
            if isinstance(op, ast.Pow) and isinstance(b, int) and b >= 0:
                r = z3.IntVal(1)
                for _ in range(b):
                    r = r * ta
                return [(Sym(r, "int"), st)]
        ra, rb = to_real(ta), to_real(tb)
        if isinstance(op, ast.Add):
            return [(Sym(ra + rb, "real"), st)]
        if isinstance(op, ast.Sub):
            return [(Sym(ra - rb, "real"), st)]
        if isinstance(op, ast.Mult):
            return [(Sym(ra * rb, "real"), st)]
        if isinstance(op, ast.Pow) and isinstance(b, int) and b >= 0:
            r = z3.RealVal(1)
            for _ in range(b):
                r = r * ra
            return [(Sym(r, "real"), st)]
        if isinstance(op, ast.Mod):
            # real modulo, positive modulus: x - m*k with 0 <= . < m; k is the (unique) integer quotient, a function of (x, m)
            self.oblige(st, f"safe:mod-positive@{self.ntag(node)}", rb > 0, "safety")
            from .core import uf, R as _R, I as _I
            k = uf("RMODK", _R, _R, _I)(ra, rb)
            r = ra - rb * to_real(k)
            st.assume(r >= 0, r < rb)
            return [(Sym(r, "real"), st)]
        raise OutOfSubset(f"binop {type(op).__name__} on {a!r},{b!r}", node)

    # ------------------------------------------------------------ comparisons
    def ev_Compare(self, e, st):
        def f(vs, s):
            if len(e.ops) == 1 and any(isinstance(x, (SeqV, ListLoc)) for x in vs) and not isinstance(e.ops[0], (ast.In, ast.NotIn, ast.Is, ast.IsNot)):
                return [(self.array_compare(e.ops[0], vs[0], vs[1], s, e), s)]
            conds = []
            for i, op in enumerate(e.ops):
                conds.append(self.compare(op, vs[i], vs[i + 1], s, e))
            if all(isinstance(c, bool) for c in conds):
                return [(all(conds), s)]
            zs = [z3.BoolVal(c) if isinstance(c, bool) else c for c in conds]
            return [(Sym(z3.And(*zs) if len(zs) > 1 else zs[0], "bool"), s)]
        return self.bind(self.eval_list([e.left] + e.comparators, st), f)

    def array_arith(self, op, a, b, st, node=None):
        j = z3.Int("j!aa")

        def el(x):
            if isinstance(x, SeqV):
                return x, to_real(z3.Select(x.arr, j))
            x = self.unopt(x, st, node)
            t, k = znum(x)
            return None, to_real(t)
        sa, ta = el(a)
        sb, tb = el(b)
        n = (sa or sb).n
        if sa is not None and sb is not None:
            self.oblige(st, f"np:same-length@{self.ntag(node)}", sa.n == sb.n, "safety")
        if isinstance(op, ast.Div):
            if sb is None:
                self.oblige(st, f"safe:div-nonzero@{self.ntag(node)}", tb != 0, "safety")
            body = ta / tb
        else:
            body = {ast.Add: ta + tb, ast.Sub: ta - tb, ast.Mult: ta * tb}[type(op)]
        return SeqV(n, z3.Lambda([j], body), "real")

    def array_compare(self, op, a, b, st, node=None):
        """numpy elementwise comparison -> boolean array (A-NUMPY; under A-REAL no NaN exists)."""
        j = z3.Int("j!ac")

        def el(x):
            if isinstance(x, (SeqV, ListLoc)):
                sv = self.as_seq(x, st)
                return sv, z3.Select(sv.arr, j)
            x = self.unopt(x, st, node)
            t, k = znum(x)
            return None, t
        sa, ta = el(a)
        sb, tb = el(b)
        n = (sa or sb).n
        if z3.is_int(ta) != z3.is_int(tb):
            ta, tb = to_real(ta), to_real(tb)
        body = {ast.Lt: ta < tb, ast.LtE: ta <= tb, ast.Gt: ta > tb, ast.GtE: ta >= tb, ast.Eq: ta == tb, ast.NotEq: ta != tb}[type(op)]
        return SeqV(n, z3.Lambda([j], body), "bool")

    def compare(self, op, a, b, st, node=None):
        """-> python bool or z3 Bool"""
        if isinstance(op, (ast.Is, ast.IsNot)):
            neg = isinstance(op, ast.IsNot)
            if b is None or a is None:
                x = a if b is None else b
                if x is None:
                    r = True
                elif isinstance(x, OptV):
                    r = x.none
                else:
                    r = False
                if isinstance(r, bool):
                    return (not r) if neg else r
                return z3.Not(r) if neg else r
            if isinstance(a, Sym) and isinstance(b, Sym) and is_ref_ty(a.ty) and is_ref_ty(b.ty):
                r = a.t == b.t
                return z3.Not(r) if neg else r
            if isinstance(a, FuncRef) and isinstance(b, FuncRef):
                r = a.qual == b.qual
                return (not r) if neg else r
            from .models import PyType
            if isinstance(a, PyType) and isinstance(b, PyType):
                r = a.cid == b.cid
                return z3.Not(r) if neg else r
            raise OutOfSubset("is on non-None", node)
        if isinstance(op, (ast.Eq, ast.NotEq)):
            r = self.equal(a, b, st, node)
            if isinstance(op, ast.NotEq):
                return (not r) if isinstance(r, bool) else z3.Not(r)
            return r
        if isinstance(op, (ast.In, ast.NotIn)):
            r = self.contains(b, a, st, node)
            if isinstance(op, ast.NotIn):
                return (not r) if isinstance(r, bool) else z3.Not(r)
            return r
        # ordering
        if isinstance(a, Sym) and a.ty == "qset" and isinstance(b, Sym) and b.ty == "qset":
            q = z3.Const("q!c", Qid)
            if isinstance(op, ast.LtE):
                return z3.ForAll([q], z3.Implies(z3.Select(a.t, q), z3.Select(b.t, q)))
            if isinstance(op, ast.GtE):
                return z3.ForAll([q], z3.Implies(z3.Select(b.t, q), z3.Select(a.t, q)))
        if isinstance(a, (int, float)) and isinstance(b, (int, float)):
            return {ast.Lt: a < b, ast.LtE: a <= b, ast.Gt: a > b, ast.GtE: a >= b}[type(op)]
        a = self.unopt(a, st, node)
        b = self.unopt(b, st, node)
        ta, ka = znum(a)
        tb, kb = znum(b)
        if ka != kb:
            ta, tb = to_real(ta), to_real(tb)
        return {ast.Lt: ta < tb, ast.LtE: ta <= tb, ast.Gt: ta > tb, ast.GtE: ta >= tb}[type(op)]

    def equal(self, a, b, st, node=None):
        if isinstance(a, SliceV) or isinstance(b, SliceV):
            return False
        if isinstance(a, SlotTy) or isinstance(b, SlotTy):
            s, o = (a, b) if isinstance(a, SlotTy) else (b, a)
            if isinstance(o, str):
                code = {"target": 0, "delay": 1}.get(o)
                if code is None:
                    return z3.And(s.kind != 2, uf_slot_str(s) == str_const(o)) if False else False
                return s.kind == code
            if isinstance(o, SlotTy):
                return z3.And(s.kind == o.kind, z3.Implies(s.kind == 2, s.pulse == o.pulse))
            raise OutOfSubset("slot type compared with non-str", node)
        if isinstance(a, OptV) or isinstance(b, OptV):
            if a is None:
                return b.none
            if b is None:
                return a.none
            if isinstance(a, OptV) and isinstance(b, OptV):
                inner = self.equal(a.val, b.val, st, node)
                inner = z3.BoolVal(inner) if isinstance(inner, bool) else inner
                return z3.Or(z3.And(a.none, b.none), z3.And(z3.Not(a.none), z3.Not(b.none), inner))
            o, x = (a, b) if isinstance(a, OptV) else (b, a)
            inner = self.equal(o.val, x, st, node)
            inner = z3.BoolVal(inner) if isinstance(inner, bool) else inner
            return z3.And(z3.Not(o.none), inner)
        if a is None or b is None:
            return a is None and b is None
        if isinstance(a, (bool, int, float, str)) and isinstance(b, (bool, int, float, str)):
            return a == b
        if isinstance(a, str) or isinstance(b, str):
            s_, o = (a, b) if isinstance(a, str) else (b, a)
            if isinstance(o, Sym) and o.ty == "str":
                return o.t == str_const(s_)
            if isinstance(o, Sym):
                return False
            raise OutOfSubset(f"str == {o!r}", node)
        if isinstance(a, tuple) and isinstance(b, tuple):
            if len(a) != len(b):
                return False
            cs = [self.equal(x, y, st, node) for x, y in zip(a, b)]
            if all(isinstance(c, bool) for c in cs):
                return all(cs)
            return z3.And(*[z3.BoolVal(c) if isinstance(c, bool) else c for c in cs])
        if isinstance(a, Sym) and isinstance(b, Sym):
            if a.ty == "qset" and b.ty == "qset":
                q = z3.Const("q!e", Qid)
                return z3.ForAll([q], z3.Select(a.t, q) == z3.Select(b.t, q))
            if a.ty == b.ty or (is_ref_ty(a.ty) and is_ref_ty(b.ty)):
                if is_ref_ty(a.ty):
                    return self.ref_equal(a, b, st, node)
                return a.t == b.t
        ta, ka = znum(a)
        tb, kb = znum(b)
        if ka != kb:
            ta, tb = to_real(ta), to_real(tb)
        return ta == tb

    def ref_equal(self, a, b, st, node=None):
        """== on instances: identity unless the class has a modelled __eq__."""
        cls = a.ty[1]
        eqm = self.models.get(f"{cls}.__eq__")
        if eqm is not None:
            return eqm(self, a, b, st)
        return a.t == b.t

    def contains(self, cont, x, st, node=None):
        if isinstance(cont, (tuple, PyList, list)):
            items = cont.items if isinstance(cont, PyList) else list(cont)
            cs = [self.equal(x, it, st, node) for it in items]
            if all(isinstance(c, bool) for c in cs):
                return any(cs)
            return z3.Or(*[z3.BoolVal(c) if isinstance(c, bool) else c for c in cs])
        if isinstance(cont, Sym) and cont.ty == "qset" and isinstance(x, Sym) and x.ty == "qid":
            return z3.Select(cont.t, x.t)
        if isinstance(cont, (ListLoc, SeqV)):
            sv = self.as_seq(cont, st)
            j = z3.Int("j!in")
            xt = self.coerce(x, sv.ety)
            return z3.Exists([j], z3.And(0 <= j, j < sv.n, z3.Select(sv.arr, j) == xt))
        if isinstance(cont, MapLoc):
            return z3.Select(cont.dom(st.heap), self.coerce(x, cont.kty))
        if isinstance(cont, PyDict):
            if isinstance(x, str):
                return x in cont.d
        if isinstance(cont, Sym) and is_ref_ty(cont.ty):
            m = self.models.get(f"{cont.ty[1]}.__contains__")
            if m:
                return m(self, cont, x, st)
        raise OutOfSubset(f"in on {cont!r}", node)

    # ------------------------------------------------------------ attribute
    def ev_Attribute(self, e, st):
        def f(v, s):
            return self.getattr(v, e.attr, s, e)
        return self.bind(self.eval(e.value, st), f)

    def getattr(self, v, attr, st, node=None):
        if isinstance(v, OptV) and attr == "size":
            v = self.unopt(v, st, node)
        if isinstance(v, Sym) and v.ty == ("ref", "Obj") and attr == "shape":
            from .core import uf, Ref as _Ref, I as _I
            return [((Sym(uf("NP_ROWS", _Ref, _I)(v.t), "int"), Sym(uf("NP_COLS", _Ref, _I)(v.t), "int")), st)]
        if isinstance(v, Sym) and v.ty == ("ref", "Obj") and attr in ("as_array", "copy"):
            # value-preserving views of an immutable numeric array (A-NUMPY): identity on the abstract value
            return [(BoundMethod(v, "<builtin>", attr), st)]
        if attr == "size" and (isinstance(v, (int, float)) or (isinstance(v, Sym) and v.ty in ("int", "real"))):
            return [(1, st)]
        if attr == "size" and isinstance(v, SeqV):
            return [(Sym(v.n, "int"), st)]
        if isinstance(v, FuncRef):
            if v.kind == "module":
                if (v.qual, attr) in (("np", "pi"), ("math", "pi")):
                    from .core import PI
                    return [(Sym(PI, "real"), st)]
                return [(FuncRef(f"{v.qual}.{attr}", "modattr"), st)]
            if v.kind == "modattr":
                return [(FuncRef(f"{v.qual}.{attr}", "modattr"), st)]
            if v.kind == "class":
                return [(FuncRef(f"{v.qual}.{attr}", "classattr"), st)]
            if v.kind == "builtin" and v.qual == "object" and attr == "__setattr__":
                return [(FuncRef("object.__setattr__", "func"), st)]
        from .models import SuperProxy
        if isinstance(v, SuperProxy):
            parents = self.src.bases.get(v.cls, [])
            for par in parents:
                if self.src.find_method(par, attr) is not None:
                    return [(BoundMethod(v.selfv, par, attr), st)]
            raise OutOfSubset(f"super().{attr}", node)
        if isinstance(v, OptV):
            v = self.unopt(v, st, node)
        if isinstance(v, SlotTy):
            # attribute of slot.type: must be a Pulse
            self.oblige(st, f"safe:slot-type-is-pulse@{self.ntag(node)}", v.kind == 2, "safety")
            st.assume(v.kind == 2)
            v = Sym(v.pulse, ("ref", "Pulse"))
        if isinstance(v, Sym) and is_ref_ty(v.ty):
            cls = v.ty[1]
            if cls in SHAPES and attr in SHAPES[cls].fields:
                return [(self.read_field(v.t, cls, attr, st), st)]
            m = self.src.find_method(cls, attr)
            if m is not None:
                rel, owner, fd = m
                decs = [dec_name(d) for d in fd.decorator_list]
                if "property" in decs or "cached_property" in decs or "functools.cached_property" in decs:
                    return self.call_method(v, cls, attr, [], {}, st, node)
                return [(BoundMethod(v, cls, attr), st)]
            if f"{cls}.{attr}" in self.models or any(f"{c}.{attr}" in self.models for c in self.src.mro(cls)):
                return [(BoundMethod(v, cls, attr), st)]
            raise OutOfSubset(f"attribute {cls}.{attr} not in shape", node)
        if isinstance(v, Sym) and v.ty == "str" and attr in ("startswith", "endswith"):
            return [(BoundMethod(v, "<builtin>", attr), st)]
        if isinstance(v, (ListLoc, SeqV, PyList, MapLoc, PyDict, ImgSet, ImgSetQ)) or (isinstance(v, Sym) and v.ty in ("qset", "real", "int")):
            return [(BoundMethod(v, "<builtin>", attr), st)]
        if isinstance(v, tuple) and hasattr(v, "_fields"):
            return [(getattr(v, attr), st)]
        from .models import PySlice
        if isinstance(v, PySlice) and attr in ("start", "stop", "step"):
            return [(getattr(v, attr), st)]
        if isinstance(v, Closure) and attr == "__name__":
            return [(getattr(v, "fname", "?"), st)]
        if isinstance(v, PyDict) and attr in ("values", "items", "keys", "get"):
            return [(BoundMethod(v, "<builtin>", attr), st)]
        raise OutOfSubset(f"attribute {attr} of {v!r}", node)

    # ------------------------------------------------------------ subscripts
    def ev_Subscript(self, e, st):
        def f(v, s):
            if isinstance(e.slice, ast.Slice):
                return self.slice_of(v, e.slice, s, e)

            def g(k, s2):
                return self.index(v, k, s2, e)
            return self.bind(self.eval(e.slice, s), g)
        return self.bind(self.eval(e.value, st), f)

    def slice_of(self, v, sl, st, node):
        is_rev = (sl.lower is None and sl.upper is None and isinstance(sl.step, ast.UnaryOp)
                  and isinstance(sl.step.op, ast.USub) and isinstance(sl.step.operand, ast.Constant)
                  and sl.step.operand.value == 1)
        if isinstance(v, Sym) and is_ref_ty(v.ty):
            # user-defined __getitem__ with a slice
            if is_rev:
                return self.call_method(v, v.ty[1], "__getitem__", [SliceV(None, None, -1)], {}, st, node)
            raise OutOfSubset("slice on object", node)
        if isinstance(v, (ListLoc, SeqV)):
            sv = self.as_seq(v, st)
            if is_rev:
                return [(SeqV(sv.n, sv.arr, sv.ety, not sv.rev), st)]
            if sl.step is None and sl.upper is None and sl.lower is not None and not sv.rev:
                def g(lo, s2):
                    lo_t, _ = znum(lo)
                    self.oblige(s2, f"safe:slice-lower-in-range@{self.ntag(node)}", z3.And(lo_t >= 0, lo_t <= sv.n), "safety")
                    j = z3.Int("j!sl")
                    arr = z3.Lambda([j], z3.Select(sv.arr, j + lo_t))
                    return [(SeqV(sv.n - lo_t, arr, sv.ety), s2)]
                return self.bind(self.eval(sl.lower, st), g)
        if isinstance(v, (PyList, tuple)):
            items = v.items if isinstance(v, PyList) else list(v)
            lo = ast.literal_eval(sl.lower) if sl.lower is not None else None
            hi = ast.literal_eval(sl.upper) if sl.upper is not None else None
            stp = ast.literal_eval(sl.step) if sl.step is not None else None
            r = items[lo:hi:stp]
            return [(PyList(r, v.kind) if isinstance(v, PyList) else tuple(r), st)]
        raise OutOfSubset("slice", node)

    def index(self, v, k, st, node):
        if isinstance(v, OptV):
            v = self.unopt(v, st, node)
        if isinstance(k, OptV):
            k = self.unopt(k, st, node)
        if isinstance(k, SliceV):
            if (k.lo, k.hi, k.step) == (None, None, -1) and isinstance(v, (ListLoc, SeqV)):
                sv = self.as_seq(v, st)
                return [(SeqV(sv.n, sv.arr, sv.ety, not sv.rev), st)]
            raise OutOfSubset("general slice value", node)
        if isinstance(v, Sym) and v.ty == ("ref", "Obj") and isinstance(k, tuple) and len(k) == 2 and isinstance(k[0], SliceV) \
                and (k[0].lo, k[0].hi, k[0].step) == (None, None, None):
            # numpy 2-d array: arr[:, i] is column i (A-NUMPY)
            from .core import uf, Ref as _Ref, I as _I
            it, _ = znum(k[1])
            return [(Sym(uf("NP_COL", _Ref, _I, _Ref)(v.t, it), ("ref", "Obj")), st)]
        if isinstance(v, Sym) and v.ty == ("ref", "Obj") and isinstance(k, Sym) and k.ty == ("ref", "Obj"):
            # numpy integer-array indexing: a[idx] takes the rows of a in the order given by idx (A-NUMPY; pm.AbstractArray delegates)
            from .core import uf, Ref as _Ref
            return [(Sym(uf("NP_TAKE", _Ref, _Ref, _Ref)(v.t, k.t), ("ref", "Obj")), st)]
        if isinstance(v, Sym) and is_ref_ty(v.ty):
            return self.call_method(v, v.ty[1], "__getitem__", [k], {}, st, node)
        if isinstance(v, (ListLoc, SeqV)):
            sv = self.as_seq(v, st)
            kt, _ = znum(k)
            out = []
            inr = z3.And(kt >= -sv.n, kt < sv.n)
            for side, s2 in self.branch(inr, st, "idx"):
                if not side:
                    out.append((Exc("IndexError"), s2))
                else:
                    j = z3.If(kt < 0, kt + sv.n, kt) if not isinstance(k, int) else (kt + sv.n if k < 0 else kt)
                    out.append((self.wrap_elem(sv, j), s2))
            return out
        if isinstance(v, (PyList, tuple)) and not isinstance(v, PyDict):
            items = v.items if isinstance(v, PyList) else v
            if isinstance(k, int):
                try:
                    return [(items[k], st)]
                except IndexError:
                    return [(Exc("IndexError"), st)]
            raise OutOfSubset("symbolic index into concrete list", node)
        if isinstance(v, PyDict):
            if isinstance(k, str):
                if k in v.d:
                    return [(v.d[k], st)]
                return [(Exc("KeyError"), st)]
        if isinstance(v, MapLoc):
            kt = self.coerce(k, v.kty)
            out = []
            for side, s2 in self.branch(z3.Select(v.dom(st.heap), kt), st, "key"):
                if side:
                    out.append((Sym(z3.Select(v.map(s2.heap), kt), v.vty), s2))
                else:
                    out.append((Exc("KeyError"), s2))
            return out
        raise OutOfSubset(f"index into {v!r}", node)

    def wrap_elem(self, sv, j):
        idx = (sv.n - 1 - j) if sv.rev else j
        return Sym(z3.Select(sv.arr, idx), sv.ety)

    def ev_Slice(self, e, st):
        parts = [e.lower, e.upper, e.step]
        vals = []
        cur = st
        for p_ in parts:
            if p_ is None:
                vals.append(None)
            else:
                r = self.eval(p_, cur)
                if len(r) != 1 or isinstance(r[0][0], Exc):
                    raise OutOfSubset("branching slice bound", e)
                vals.append(r[0][0])
                cur = r[0][1]
        return [(SliceV(*vals), cur)]

    def ev_Starred(self, e, st):
        raise OutOfSubset("starred", e)

    def qset_image(self, e, g, it, st):
        from .models import _fresh_consts_introduced
        q0 = fresh("q", Qid)
        probe = st.copy()
        probe.assume(z3.Select(it.t, q0))
        base = len(probe.pc)
        self.assign_target(g.target, Sym(q0, "qid"), probe, e)
        res = self.eval(e.elt, probe)
        normal = [(v, s2) for v, s2 in res if not isinstance(v, Exc)]
        for v, s2 in res:
            if isinstance(v, Exc):
                self.oblige(s2, f"comprehension-element-cannot-raise:{v.name}@{self.ntag(e)}", z3.BoolVal(False), "safety")
        if len(normal) != 1:
            raise OutOfSubset("set-comprehension body over a symbolic set is not single-path", e)
        v, s_after = normal[0]
        if not isinstance(v, Sym):
            t, k = znum(v)
            v = Sym(t, k)
        new_pc = s_after.pc[base:]
        fv = [c for c in _fresh_consts_introduced(new_pc + [v.t], st) if not c.eq(q0)]
        funs = [z3.Function(f"img!{c.decl().name()}", Qid, c.sort()) for c in fv]

        def inst(qt):
            subs = [(q0, qt)] + [(c, f(qt)) for c, f in zip(fv, funs)]
            return z3.substitute(v.t, *subs), [z3.substitute(f, *subs) for f in new_pc]
        qq = z3.Const("q!img", Qid)
        val, facts = inst(qq)
        if facts:
            st.assume(z3.ForAll([qq], z3.Implies(z3.Select(it.t, qq), z3.And(*facts)), patterns=[z3.Select(it.t, qq)]), name="comprehension-facts")
        return [(ImgSetQ(it.t, lambda qt: inst(qt)[0], v.ty), st)]

    def ev_ListComp(self, e, st):
        return self.comprehension(e, st, "list")

    def ev_SetComp(self, e, st):
        return self.comprehension(e, st, "set")

    def ev_GeneratorExp(self, e, st):
        return self.comprehension(e, st, "gen")

    def ev_DictComp(self, e, st):
        raise OutOfSubset("dict comprehension", e)

    def comprehension(self, e, st, kind):
        """Only over concrete-length iterables (unrolled); symbolic ones must be summarised by a model."""
        if len(e.generators) != 1:
            raise OutOfSubset("nested comprehension", e)
        g = e.generators[0]

        def f(it, s):
            from .stmt import IterV
            if isinstance(it, IterV):
                dom = it.domain(self, s)
                if dom[0] == "concrete":
                    it = PyList(list(dom[1]))
            if isinstance(it, (PyList, tuple)):
                items = it.items if isinstance(it, PyList) else list(it)
                results = [([], s)]
                for item in items:
                    nxt = []
                    for acc, s1 in results:
                        if isinstance(acc, Exc):
                            nxt.append((acc, s1))
                            continue
                        s1 = s1.copy()
                        self.assign_target(g.target, item, s1)
                        conds = [(True, s1)]
                        for cnd in g.ifs:
                            c2 = []
                            for ok, s2 in conds:
                                if not ok:
                                    c2.append((False, s2))
                                    continue
                                for cv, s3 in self.eval(cnd, s2):
                                    for side, s4 in self.branch(self.truth(cv, s3), s3, "compif"):
                                        c2.append((side, s4))
                            conds = c2
                        for ok, s2 in conds:
                            if not ok:
                                nxt.append((acc, s2))
                            else:
                                for v, s3 in self.eval(e.elt, s2):
                                    nxt.append((v if isinstance(v, Exc) else acc + [v], s3))
                    results = nxt
                out = []
                for acc, s1 in results:
                    if isinstance(acc, Exc):
                        out.append((acc, s1))
                    elif kind == "set":
                        out.append((self.make_qset(acc, s1), s1))
                    else:
                        out.append((PyList(acc, "list"), s1))
                return out
            if kind in ("list", "set") and not g.ifs:
                return self.sym_comprehension(e, g, it, s, kind)
            return [(SymComp(e, it, dict(s.env), kind), s)]
        return self.bind(self.eval(g.iter, st), f)

    def sym_comprehension(self, e, g, it, st, kind):
        """[f(x) for x in symbolic-iterable]: f evaluated once on a generic element (must be single-path), then
        generalised: the result is the sequence j -> f(elem(j)) (facts about f's evaluation hold for every j)."""
        from .models import GenTerm, _fresh_consts_introduced
        if kind == "set" and isinstance(it, Sym) and it.ty == "qset":
            return self.qset_image(e, g, it, st)
        dom = self.iter_domain(it, st, e)
        _, n, elem = dom
        j = fresh("j", I)
        probe = st.copy()
        probe.assume(j >= 0, j < n)
        base = len(probe.pc)
        self.assign_target(g.target, elem(j), probe, e)
        res = self.eval(e.elt, probe)
        normal = [(v, s2) for v, s2 in res if not isinstance(v, Exc)]
        for v, s2 in res:
            if isinstance(v, Exc):   # a raising element: only allowed if unreachable
                self.oblige(s2, f"comprehension-element-cannot-raise:{v.name}@{self.ntag(e)}", z3.BoolVal(False), "safety")
        if len(normal) != 1:
            raise OutOfSubset("comprehension body over a symbolic iterable is not single-path", e)
        v, s_after = normal[0]
        if not isinstance(v, Sym):
            t, k = znum(v)
            v = Sym(t, k)
        new_pc = s_after.pc[base:]
        fv = [c for c in _fresh_consts_introduced(new_pc + [v.t], st) if not c.eq(j)]
        gt = GenTerm(j, v.t, new_pc, fv)
        jj = z3.Int("j!sc")
        val, facts = gt.instance(jj)
        if facts:
            st.assume(z3.ForAll([jj], z3.Implies(z3.And(jj >= 0, jj < n), z3.And(*facts))), name="comprehension-facts")
        arr = fresh("comp", z3.ArraySort(I, sort_of(v.ty)))
        pats = [z3.Select(arr, jj)]
        ej = elem(jj)
        ej = ej[0] if isinstance(ej, tuple) else ej
        if isinstance(ej, Sym) and not ej.t.eq(jj) and z3.is_app(ej.t) and ej.t.decl().kind() in (z3.Z3_OP_SELECT, z3.Z3_OP_UNINTERPRETED):
            pats.append(ej.t)      # also trigger on the element term (e.g. order[j]) so that membership facts reach the definition
        st.assume(z3.ForAll([jj], z3.Implies(z3.And(jj >= 0, jj < n), z3.Select(arr, jj) == val), patterns=pats), name="comprehension-def")
        seq = SeqV(n, arr, v.ty)
        if kind == "list":
            return [(seq, st)]
        return [(ImgSet(seq), st)]


class ImgSetQ:
    """{f(q) for q in S} over a set of qubit ids: val(q) is a term in the element itself."""

    def __init__(self, dom, val, ety):
        self.dom, self.val, self.ety = dom, val, ety


class ImgSet:
    """{f(x) for x in S}: the set of values of a symbolic sequence (only len()==1 tests, pop() and truthiness are modelled)."""

    def __init__(self, seq):
        self.seq = seq


class SliceV:
    def __init__(self, lo, hi, step):
        self.lo, self.hi, self.step = lo, hi, step


class PyDict:
    def __init__(self, d):
        self.d = dict(d)


class SymComp:
    """A comprehension/generator over a symbolic iterable, consumed by any/all/max/min/sum models."""

    def __init__(self, node, it, env, kind):
        self.node, self.it, self.env, self.kind = node, it, env, kind


from .source import dec_name  # noqa: E402
