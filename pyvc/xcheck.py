"""CPython cross-check of the encoding (DESIGN 2.12): the symbolic semantics must *include* what the real code does.

For a set of leaf functions (integer / real arithmetic, index normalisation, rounding) concrete argument vectors are generated; the real
function is run on the tree under /venv/bin/python, and on the symbolic side the same function is executed once from its symbolic entry
state, the entry state is pinned to the concrete vector, and some path must be satisfiable together with `result == what CPython returned`
(or raise the exception CPython raised).  If no path is, the encoding excludes real behaviour: the engine (or a model / assumed contract
it used) is unsound, and every proof that went through it is suspect.  This validates the *generator*, it decides no property.

    python3-vt -m pyvc.xcheck [--n 40] [--seed 0]        -> JSON summary on the last line, exit 1 on any disagreement
    /venv/bin/python pyvc/xcheck.py --tree-side in.json   (helper, run with PYTHONPATH on the tree)
"""
import json
import math
import os
import random
import subprocess
import sys

VERIF = os.path.dirname(os.path.dirname(os.path.abspath(__file__)))
REPO = os.environ.get("PYVC_ROOT", "/repo")


# ------------------------------------------------------------------------------------------------ case generation (plain data)
def gen_cases(rng, n):
    cases = []
    for _ in range(n):
        ch = dict(clock_period=rng.choice([1, 2, 4, 5, 8]), min_duration=rng.choice([1, 4, 16, 20]), max_duration=rng.choice([None, 100, 1000, 10 ** 7, 1002]),
                  mod_bandwidth=rng.choice([None, 2.0, 4.0, 8.0, 20.0, 30.0, 3.7]), custom_phase_jump_time=rng.choice([None, 0, 40, 7]))
        if ch["max_duration"] is not None and ch["max_duration"] < ch["min_duration"]:
            ch["max_duration"] = None
        cases.append(dict(fn="Channel.validate_duration", ch=ch, duration=rng.choice([0, 1, 3, 4, 7, 15, 16, 17, 99, 100, 101, 1000, 1001, 1003, -4, 10 ** 7 + 1])))
        cases.append(dict(fn="Channel.rise_time", ch=ch))
        cases.append(dict(fn="Channel.phase_jump_time", ch=ch))
        d = rng.choice([1, 2, 5, 16, 100])
        cases.append(dict(fn="Waveform._check_index", duration=d, i=rng.choice([0, 1, -1, d - 1, d, -d, -d - 1, d + 3, 2])))
        cases.append(dict(fn="Waveform._check_slice", duration=d, start=rng.choice([None, 0, 1, -1, d, -d, d + 2, -d - 2, 3]),
                          stop=rng.choice([None, 0, 1, -1, d, -d, d + 2, -d - 2, 2]), step=rng.choice([None, None, 1, 2, -1, 0])))
        cases.append(dict(fn="RampWaveform._slope", duration=rng.choice([2, 3, 16, 101]), start=rng.choice([0.0, 1.0, -2.5]), stop=rng.choice([0.0, 5.0, 1.0, -7.25])))
        cases.append(dict(fn="_PhaseDriftParams.calc_phase_drift", rate=rng.choice([0.0, 2.5, -20.0, 11.96]), ti=rng.choice([0, 100, 232]), tf=rng.choice([0, 100, 240, 1000, 99])))
    return cases


# ------------------------------------------------------------------------------------------------ tree side (real code under CPython)
def tree_side(path):
    import warnings
    warnings.filterwarnings("ignore")
    from pulser.channels import Rydberg
    from pulser.sequence._schedule import _PhaseDriftParams
    from pulser.waveforms import ConstantWaveform, RampWaveform
    cases = json.load(open(path))
    out = []
    for c in cases:
        try:
            fn = c["fn"]
            if fn.startswith("Channel."):
                ch = Rydberg.Global(None, None, **c["ch"])
                r = ch.validate_duration(c["duration"]) if fn.endswith("validate_duration") else getattr(ch, fn.split(".")[1])
            elif fn == "Waveform._check_index":
                r = ConstantWaveform(c["duration"], 1.0)._check_index(c["i"])
            elif fn == "Waveform._check_slice":
                ConstantWaveform(c["duration"], 1.0)._check_slice(slice(c["start"], c["stop"], c["step"]))
                r = None
            elif fn == "RampWaveform._slope":
                r = float(RampWaveform(c["duration"], c["start"], c["stop"])._slope)
            elif fn == "_PhaseDriftParams.calc_phase_drift":
                r = float(_PhaseDriftParams(drift_rate=c["rate"], ti=c["ti"]).calc_phase_drift(c["tf"]))
            out.append(dict(ok=True, result=r))
        except Exception as ex:
            out.append(dict(ok=False, exc=type(ex).__name__))
    print(json.dumps(out))


# ------------------------------------------------------------------------------------------------ symbolic side
def _frac(x):
    from fractions import Fraction
    import z3
    f = Fraction(repr(float(x))) if not isinstance(x, int) else Fraction(x)
    return z3.RealVal(str(f.numerator)) / z3.RealVal(str(f.denominator))


def bind(case, args):
    """constraints pinning the symbolic entry state to the concrete case"""
    import z3
    from contracts.lib import T, fget, fnone
    from pyvc.core import uf, Ref, R, I
    out = []
    fn = case["fn"]
    if fn.startswith("Channel."):
        ch = T(args["self"])
        for k, v in case["ch"].items():
            out.append(fnone("Channel", k, ch) == (v is None))
            if v is not None:
                out.append(fget("Channel", k, ch) == (_frac(v) if k == "mod_bandwidth" else v))
        out.append(fnone("Channel", "eom_config", ch))
        if "duration" in case:
            out.append(T(args["duration"]) == case["duration"])
    elif fn in ("Waveform._check_index", "Waveform._check_slice"):
        from contracts.lib import WDUR
        w = T(args["self"])
        out.append(WDUR(w) == case["duration"])
        out.append(uf("Waveform._duration", Ref, I)(w) == case["duration"])
        if fn.endswith("index"):
            out.append(T(args["i"]) == case["i"])
        else:
            s = args["s"]
            for nm in ("start", "stop", "step"):
                o = getattr(s, nm)
                out.append(o.none == (case[nm] is None))
                if case[nm] is not None:
                    out.append(T(o.val) == case[nm])
    elif fn == "RampWaveform._slope":
        w = T(args["self"])
        out += [uf("Waveform._duration", Ref, I)(w) == case["duration"], uf("RampWaveform._start", Ref, R)(w) == _frac(case["start"]),
                uf("RampWaveform._stop", Ref, R)(w) == _frac(case["stop"])]
    elif fn == "_PhaseDriftParams.calc_phase_drift":
        p = T(args["self"])
        out += [uf("_PhaseDriftParams.drift_rate", Ref, R)(p) == _frac(case["rate"]), uf("_PhaseDriftParams.ti", Ref, I)(p) == case["ti"], T(args["tf"]) == case["tf"]]
    return out


def main(argv):
    if "--tree-side" in argv:
        return tree_side(argv[argv.index("--tree-side") + 1])
    import z3
    sys.path.insert(0, VERIF)
    from pyvc.driver import load_contracts
    load_contracts()
    from contracts.lib import AXIOMS, T
    from pyvc.contracts import REGISTRY
    from pyvc.interp import exc_isa
    from pyvc.stmt import NEXT, RAISE, RET
    from pyvc.models import MODELS
    from pyvc.source import SourceIndex
    from pyvc.vc import _setup_and_run, has_quant
    n = int(argv[argv.index("--n") + 1]) if "--n" in argv else 12
    seed = int(argv[argv.index("--seed") + 1]) if "--seed" in argv else 0
    rng = random.Random(seed)
    cases = gen_cases(rng, n)
    os.makedirs(os.path.join(VERIF, "out"), exist_ok=True)
    inp = os.path.join(VERIF, "out", f"xcheck-{os.getpid()}.json")
    json.dump(cases, open(inp, "w"))
    env = dict(os.environ, PYTHONPATH=f"{REPO}/pulser-core:{REPO}/pulser-simulation")
    r = subprocess.run(["/venv/bin/python", os.path.abspath(__file__), "--tree-side", inp], capture_output=True, text=True, env=env, cwd="/tmp")
    os.remove(inp)
    actual = json.loads(r.stdout.strip().splitlines()[-1])
    if "--selftest" in argv:
        # the comparison itself must be able to fail: shift every integer result CPython gave by one and expect a disagreement for each
        for a_ in actual:
            if a_.get("ok") and isinstance(a_.get("result"), int) and not isinstance(a_.get("result"), bool):
                a_["result"] += 1
                a_["shifted"] = True
    src = SourceIndex(REPO).load_tree()
    runs, solvers = {}, {}
    bad, agree, skipped, unknowns = [], 0, 0, 0
    axioms = [f for _, f, _ in AXIOMS]
    for case, act in zip(cases, actual):
        fn = case["fn"]
        if fn not in runs:
            runs[fn] = _setup_and_run(src, REGISTRY[fn], MODELS, axioms=axioms)
        early, eng, args, entry_heap, c0, results, meta, sink = runs[fn]
        if early is not None:
            bad.append(dict(case=case, why="engine: " + str(early.get("error"))[:200]))
            continue
        pins = bind(case, args)
        # the case must satisfy the function's precondition (otherwise it is not a case)
        s0 = z3.Solver()
        s0.set("timeout", 3000)
        for _, cl in REGISTRY[fn].requires(c0):
            f0 = eng.clause_formula(cl)
            if not has_quant(f0):
                s0.add(f0)
        for p in pins:
            s0.add(p)
        if s0.check() == z3.unsat:
            skipped += 1
            continue
        found = False
        for pi, (kind, pay, s1) in enumerate(results):
            if kind == NEXT:
                kind, pay = RET, None
            if act["ok"] != (kind == RET):
                continue
            s = solvers.get((fn, pi))
            if s is None:
                s = z3.Solver()
                s.set("timeout", 4000)
                # only the quantifier-free part of the path condition: 'unsat' is then definitive (a subset of the facts already excludes what
                # CPython did), and 'sat' is decidable (the quantified axioms would turn every answer into 'unknown')
                for f in s1.pc:
                    if not has_quant(f):
                        s.add(f)
                solvers[(fn, pi)] = s
            s.push()
            for p in pins:
                s.add(p)
            if act["ok"]:
                if act["result"] is not None:
                    if pay is None:
                        s.pop()
                        continue
                    if isinstance(act["result"], float):
                        # A-REAL: the encoding computes in exact reals; CPython's double result may differ by rounding only
                        tol = _frac(1e-9 * max(1.0, abs(act["result"])))
                        s.add(T(pay) - _frac(act["result"]) <= tol, _frac(act["result"]) - T(pay) <= tol)
                    else:
                        s.add(T(pay) == act["result"])
            else:
                if not (exc_isa(pay.name, act["exc"]) or exc_isa(act["exc"], pay.name)):
                    s.pop()
                    continue
            r_ = s.check()
            s.pop()
            if r_ in (z3.sat, z3.unknown):
                found = True
                unknowns += (r_ == z3.unknown)
                break
        if found:
            agree += 1
        else:
            bad.append(dict(case=case, cpython=act, why="no symbolic path is consistent with what CPython did"))
    summary = dict(cases=len(cases), agree=agree, of_which_solver_unknown=unknowns, skipped_outside_precondition=skipped, disagreements=bad[:10] if "--selftest" not in argv else [], functions=sorted(runs))
    if "--selftest" in argv:
        n_shift = sum(1 for a_ in actual if a_.get("shifted"))
        caught = sum(1 for b_ in bad if b_.get("cpython", {}).get("shifted"))
        summary = dict(selftest=True, shifted_results=n_shift, reported_as_disagreement=caught)
        print(json.dumps(summary))
        return 0 if (n_shift > 0 and caught == n_shift) else 1
    print(json.dumps(summary, default=str))
    return 1 if bad else 0


if __name__ == "__main__":
    sys.exit(main(sys.argv[1:]) or 0)
