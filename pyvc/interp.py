"""Symbolic executor over the real AST (DESIGN 2.2-2.4)."""
from __future__ import annotations

import ast

import z3

from .core import (B, I, R, SHAPES, BoundMethod, Closure, FuncRef, ListLoc, Opaque, OptV,
                   OutOfSubset, PyList, QSet, Qid, Ref, SeqV, SlotTy, State, Sym, dyn_class,
                   field_owner, fresh, is_ref_ty, isinstance_term, sort_of, str_const,
                   subclasses, to_real, uf, znum)
from .contracts import REGISTRY, Al, Ctx, Q, al_assume, al_goal
from .source import dec_name

EXC_PARENTS = {
    "ValueError": "Exception", "TypeError": "Exception", "RuntimeError": "Exception",
    "NotImplementedError": "RuntimeError", "IndexError": "LookupError", "KeyError": "LookupError",
    "LookupError": "Exception", "AssertionError": "Exception", "AttributeError": "Exception",
    "ZeroDivisionError": "ArithmeticError", "ArithmeticError": "Exception",
    "Exception": "BaseException", "PulserValueError": "ValueError",
    "AbstractReprError": "Exception", "DeserializeDeviceError": "Exception",
    "InvalidSequenceError": "PulserValueError", "DimensionError": "InvalidSequenceError", "DimensionChoiceError": "DimensionError",
    "DimensionTooHighError": "DimensionError", "DimensionPositionsTooHighError": "DimensionError", "TrapsNumberError": "InvalidSequenceError",
    "TrapsNumberTooLowError": "TrapsNumberError", "TrapsNumberTooHighError": "TrapsNumberError", "QubitsNumberError": "InvalidSequenceError",
    "AtomsNumberError": "InvalidSequenceError", "DistanceError": "InvalidSequenceError", "RadiusError": "InvalidSequenceError",
    "RydbergLevelError": "InvalidSequenceError",
}


def exc_isa(name, parent):
    while name is not None:
        if name == parent:
            return True
        name = EXC_PARENTS.get(name)
    return False


class Exc:
    def __init__(self, name, cause=""):
        self.name, self.cause = name, cause

    def __repr__(self):
        return f"Exc({self.name})"


class Obligation:
    def __init__(self, name, hyps, goal, kind="post", meta=None):
        self.name, self.hyps, self.goal, self.kind, self.meta = name, list(hyps), goal, kind, meta or {}


class Interp:
    def __init__(self, src, fn_file, models, sink, axioms=None, prune=True):
        self.src = src
        self.file = fn_file          # file of the function currently verified (for globals)
        self.models = models         # dict qual -> python callable(interp, args, kwargs, st) -> results
        self.sink = sink             # list collecting Obligation
        self.axioms = list(axioms or [])
        self.prune = prune
        self.prefix = ""             # obligation name prefix
        self.call_depth = 0
        self.cur_contract = None
        self.loop_counter = None
        self.n_paths = 0
        self.file_stack = []
        self.entry_heap = None
        self.allowed_writes = None
        self._ntags, self._indexed, self._keep = {}, set(), []

    # ------------------------------------------------------------------ util
    def ntag(self, node):
        """Stable tag of an AST node: '#<ordinal among nodes of its type in the enclosing function>'
        (not a line number, so harmless edits do not rename obligations)."""
        if node is None or not hasattr(node, "lineno"):
            return "#?"
        t = self._ntags.get(id(node))
        return t if t is not None else f"#L{node.lineno}"

    def index_function(self, fd):
        if id(fd) in self._indexed:
            return
        self._indexed.add(id(fd))
        counts = {}
        self._keep.append(fd)
        for n in ast.walk(fd):
            k = type(n).__name__
            counts[k] = counts.get(k, 0) + 1
            self._ntags[id(n)] = f"#{counts[k] - 1}"

    def oblige(self, st, name, goal, kind="safety", meta=None):
        if isinstance(goal, bool):
            if goal:
                return
            goal = z3.BoolVal(False)
        tag = "/".join(st.tags[-6:])
        nm = f"{self.prefix}/{name}" + (f"[{tag}]" if tag else "")
        names = [None] * len(self.axioms) + (st.pcn + [None] * (len(st.pc) - len(st.pcn)))
        self.sink.append(Obligation(nm, self.axioms + st.pc, goal, kind, dict(meta or {}, defs=list(st.defs), hyp_names=names)))

    def feasible(self, st, cond=None):
        if not self.prune:
            return True
        s = z3.Solver()
        s.set("timeout", 400)
        for a in self.axioms:
            s.add(a)
        for p in st.pc:
            s.add(p)
        if cond is not None:
            s.add(cond)
        return s.check() != z3.unsat

    def branch(self, cond, st, label=""):
        """cond: python bool or z3 Bool -> [(bool, state)] for feasible sides."""
        if isinstance(cond, bool):
            return [(cond, st)]
        cond = z3.simplify(cond)
        if z3.is_true(cond):
            return [(True, st)]
        if z3.is_false(cond):
            return [(False, st)]
        out = []
        for side, c in ((True, cond), (False, z3.Not(cond))):
            if self.feasible(st, c):
                s2 = st.copy()
                s2.assume(c)
                if label:
                    s2.tags.append(f"{label}:{'T' if side else 'F'}")
                out.append((side, s2))
        return out

    def bind(self, results, fn):
        out = []
        for v, st in results:
            if isinstance(v, Exc):
                out.append((v, st))
            else:
                out.extend(fn(v, st))
        return out

    def eval_list(self, exprs, st):
        """Evaluate expressions left to right -> [(list_of_values | Exc, st)]."""
        results = [([], st)]
        for e in exprs:
            nxt = []
            for vals, s in results:
                if isinstance(vals, Exc):
                    nxt.append((vals, s))
                    continue
                for v, s2 in self.eval(e, s):
                    if isinstance(v, Exc):
                        nxt.append((v, s2))
                    else:
                        nxt.append((vals + [v], s2))
            results = nxt
        return results

    # ------------------------------------------------------------ truthiness
    def truth(self, v, st):
        if v is None or isinstance(v, (bool, int, float, str)):
            return bool(v)
        if isinstance(v, Sym):
            if v.ty == "bool":
                return v.t
            if v.ty in ("int", "real"):
                return v.t != 0
            if v.ty == "qset":
                q = z3.Const("q!t", Qid)
                return z3.Exists([q], z3.Select(v.t, q))
            if is_ref_ty(v.ty):
                cls = v.ty[1]
                m = self.src.find_method(cls, "__bool__") or self.src.find_method(cls, "__len__")
                if m is None or cls in ("_TimeSlot",):
                    return True
                raise OutOfSubset(f"truthiness of {cls} with __bool__/__len__")
            if v.ty == "str":
                return v.t != str_const("")
        if isinstance(v, OptV):
            t = self.truth(v.val, st)
            if isinstance(t, bool):
                return z3.Not(v.none) if t else False
            return z3.And(z3.Not(v.none), t)
        if isinstance(v, SeqV):
            return v.n != 0
        if isinstance(v, ListLoc):
            return st.heap.read(v.key + ".len", v.owner) != 0
        if isinstance(v, (PyList, tuple, list)):
            return len(v.items if isinstance(v, PyList) else v) > 0
        if isinstance(v, (FuncRef, BoundMethod, Closure)):
            return True
        from .stmt import IterV
        if isinstance(v, IterV):
            dom = v.domain(self, st)
            return (len(dom[1]) > 0) if dom[0] == "concrete" else (dom[1] != 0)
        raise OutOfSubset(f"truthiness of {v!r}")

    def as_bool_val(self, t):
        return t if isinstance(t, bool) else Sym(t, "bool")

    # ------------------------------------------------------------ field access
    def read_field(self, ref, cls, fld, st):
        ty, mut = SHAPES[cls].fields[fld]
        owner = field_owner(cls, fld)
        key = f"{owner}.{fld}"
        return self.read_key(ref, key, ty, mut, st.heap)

    def read_key(self, ref, key, ty, mut, heap):
        def rd(k, sort):
            if mut:
                return heap.read(k, ref)
            return uf(k, Ref, sort)(ref)
        if isinstance(ty, tuple) and ty[0] == "opt" and isinstance(ty[1], tuple) and ty[1][0] == "list":
            if mut:
                raise OutOfSubset("mutable optional list field")
            ety = ty[1][1]
            return OptV(uf(key + "?", Ref, B)(ref), SeqV(uf(key + ".len", Ref, I)(ref), uf(key + ".at", Ref, z3.ArraySort(I, sort_of(ety)))(ref), ety))
        if isinstance(ty, tuple) and ty[0] == "opt":
            inner = ty[1]
            if inner == "slotty":
                raise OutOfSubset("opt slotty")
            return OptV(rd(key + "?", B), Sym(rd(key, sort_of(inner)), inner))
        if isinstance(ty, tuple) and ty[0] == "list":
            if mut:
                return ListLoc(ref, key, ty[1])
            return SeqV(uf(key + ".len", Ref, I)(ref), uf(key + ".at", Ref, z3.ArraySort(I, sort_of(ty[1])))(ref), ty[1])
        if isinstance(ty, tuple) and ty[0] == "map":
            return MapLoc(ref, key, ty[1], ty[2], mut)
        if ty == "slotty":
            return SlotTy(rd(key + ".kind", I), rd(key + ".pulse", Ref))
        if ty == "opaque":
            return Opaque(key)
        return Sym(rd(key, sort_of(ty)), ty)

    def write_field(self, ref, cls, fld, val, st, node=None):
        ty, mut = SHAPES[cls].fields[fld]
        owner = field_owner(cls, fld)
        key = f"{owner}.{fld}"
        if not mut:
            return self.init_write(ref, cls, fld, ty, key, val, st, node)
        self.note_write(key, ref, st)
        if isinstance(ty, tuple) and ty[0] == "opt":
            if val is None:
                st.heap.write(key + "?", ref, z3.BoolVal(True))
            elif isinstance(val, OptV):
                st.heap.write(key + "?", ref, val.none)
                st.heap.write(key, ref, self.coerce(val.val, ty[1]))
            else:
                st.heap.write(key + "?", ref, z3.BoolVal(False))
                st.heap.write(key, ref, self.coerce(val, ty[1]))
        elif isinstance(ty, tuple) and ty[0] == "list":
            sv = self.as_seq(val, st, ty[1])
            st.heap.write(key + ".len", ref, sv.n)
            st.heap.write(key + ".at", ref, sv.arr)
        elif isinstance(ty, tuple) and ty[0] == "map":
            if isinstance(val, PyList) and val.kind == "dict" and not val.items:
                ks, vs = sort_of(ty[1]), sort_of(ty[2])
                st.heap.write(key + ".dom", ref, z3.K(ks, z3.BoolVal(False)))
            else:
                raise OutOfSubset("assign non-empty dict to map field", node)
        elif ty == "opaque":
            pass
        else:
            st.heap.write(key, ref, self.coerce(val, ty))

    def init_write(self, ref, cls, fld, ty, key, val, st, node):
        """Store to an immutable (frozen / write-once) field: only inside a constructor on `self`, where it *defines* the field
        (the uninterpreted function's value at the fresh object); a second write on the same path is refused."""
        fn = getattr(self, "cur_fn_name", "") or ""
        if not (fn.endswith("__init__") or fn.endswith("__post_init__") or fn.endswith("__new__")):
            raise OutOfSubset(f"write to immutable field {key} outside a constructor", node)
        selfv = st.env.get("self")
        if not (isinstance(selfv, Sym) and selfv.t.eq(ref)):
            raise OutOfSubset(f"write to immutable field {key} of an object other than self", node)
        done = getattr(st, "init_done", set())
        if key in done:
            raise OutOfSubset(f"second write to write-once field {key}", node)
        st.init_done = set(done) | {key}
        self.define_field(ref, cls, fld, ty, val, st)

    def note_write(self, key, ref, st):
        """Frame bookkeeping: remember (key, owner) pairs written on this path."""
        st.writes = getattr(st, "writes", []) + [(key, ref)]

    def coerce(self, v, ty):
        """Value -> z3 term of the sort for ty."""
        if ty == "int":
            t, k = znum(v)
            if k == "real":
                raise OutOfSubset("real stored into int field")
            return t
        if ty == "real":
            t, k = znum(v)
            return to_real(t)
        if ty == "bool":
            if isinstance(v, bool):
                return z3.BoolVal(v)
            if isinstance(v, Sym) and v.ty == "bool":
                return v.t
        if ty == "str":
            if isinstance(v, str):
                return str_const(v)
            if isinstance(v, Sym) and v.ty == "str":
                return v.t
        if ty == "qset" and isinstance(v, Sym) and v.ty == "qset":
            return v.t
        if ty == "qid" and isinstance(v, Sym) and v.ty == "qid":
            return v.t
        if is_ref_ty(ty) and isinstance(v, Sym) and is_ref_ty(v.ty):
            return v.t
        raise OutOfSubset(f"cannot coerce {v!r} to {ty}")

    def as_seq(self, v, st, ety=None):
        if isinstance(v, OptV):
            self.oblige(st, "safe:not-none@seq", z3.Not(v.none), "safety")
            v = v.val
        if isinstance(v, SeqV):
            return v
        if isinstance(v, ListLoc):
            return SeqV(st.heap.read(v.key + ".len", v.owner), st.heap.read(v.key + ".at", v.owner), v.ety)
        if isinstance(v, (PyList, tuple, list)):
            items = v.items if isinstance(v, PyList) else list(v)
            if ety is None:
                if not items:
                    raise OutOfSubset("empty literal list of unknown element type")
                ety = self.type_of(items[0])
            arr = z3.K(I, self.default_term(ety))
            for i, it in enumerate(items):
                arr = z3.Store(arr, i, self.coerce(it, ety))
            return SeqV(z3.IntVal(len(items)), arr, ety)
        raise OutOfSubset(f"not a sequence: {v!r}")

    def default_term(self, ty):
        return fresh("dflt", sort_of(ty))

    def type_of(self, v):
        if isinstance(v, bool):
            return "bool"
        if isinstance(v, int):
            return "int"
        if isinstance(v, float):
            return "real"
        if isinstance(v, str):
            return "str"
        if isinstance(v, Sym):
            return v.ty
        raise OutOfSubset(f"type of {v!r}")


class MapLoc:
    """dict-valued field:  '<key>.dom' / '<key>.map' ; immutable ones are UFs."""

    def __init__(self, owner, key, kty, vty, mut):
        self.owner, self.key, self.kty, self.vty, self.mut = owner, key, kty, vty, mut

    def dom(self, heap):
        if self.mut:
            return heap.read(self.key + ".dom", self.owner)
        return uf(self.key + ".dom", Ref, z3.ArraySort(sort_of(self.kty), B))(self.owner)

    def map(self, heap):
        if self.mut:
            return heap.read(self.key + ".map", self.owner)
        return uf(self.key + ".map", Ref, z3.ArraySort(sort_of(self.kty), sort_of(self.vty)))(self.owner)
