"""Relational (2-safety) obligations by sequential self-composition (DESIGN 2.4).

estimate-equals-actual: run the real body of Sequence.estimate_added_delay, then - from the state it leaves, which
must be the entry state (read-only) - the real body of Sequence._add, and require that the argument tuples they hand
to make_next_pulse_slot / add_pulse agree (pulse duration and phase, channel, protocol, phase barriers, no drift).
With A-DET (make_next_pulse_slot is a deterministic function of the values it reads) this gives
estimate == delay inserted by the same add.
"""
import z3

from .core import Heap, HEAP_SORTS, I, OptV, State, Sym, fresh, is_ref_ty, isinstance_term, SHAPES
from .contracts import REGISTRY, Ctx
from .interp import Exc
from .stmt import NEXT, RAISE, RET
from .vc import Engine, sym_arg, frame_obligations

RELATIONS = {}


def relation(name):
    def deco(f):
        RELATIONS[name] = f
        return f
    return deco


def _entry(src, con, models, axioms):
    sink = []
    eng = Engine(src, con.file, models, sink, list(axioms), True)
    eng.cur_contract = con
    eng.loop_counter = [0]
    eng.cls_ctx = con.qual.split(".")[0]
    eng.cur_fn_name = con.qual
    st = State(heap=Heap(tag="H0"))
    args = {n: sym_arg(n, ty) for n, ty in con.params.items()}
    for v in args.values():
        if isinstance(v, Sym) and is_ref_ty(v.ty) and v.ty[1] in SHAPES:
            st.assume(isinstance_term(v.t, v.ty[1]))
    st.env = dict(args)
    eng.fn_args = args
    entry_heap = st.heap.copy()
    for k in HEAP_SORTS:
        entry_heap.get(k)
    st.heap = Heap(entry_heap.arrays, "H0")
    eng.entry_heap = entry_heap
    return eng, st, args, entry_heap, sink


@relation("estimate-equals-actual")
def estimate_equals_actual(src, models, axioms):
    from contracts.lib import T, p_duration, p_phase
    con_add = REGISTRY["Sequence._add"]
    con_est = REGISTRY["Sequence.estimate_added_delay"]
    eng, st, args, entry_heap, sink = _entry(src, con_add, models, axioms)
    eng.prefix = "rel/estimate-equals-actual"
    c0 = Ctx(args, entry_heap, entry_heap, st=st)
    eng.assume_clauses(st, con_add.requires(c0))
    st.assume(args["phase_drift_params"].none)          # Sequence.add passes no drift parameters
    fd_est = src.find(con_est.file, con_est.qual)
    fd_add = src.find(con_add.file, con_add.qual)
    eng.index_function(fd_est)
    eng.index_function(fd_add)
    eng.watch = {"_Schedule.make_next_pulse_slot": [], "_Schedule.add_pulse": []}
    # 1. estimate (to completion: it must be read-only), recording its call to make_next_pulse_slot
    s_e = st.copy()
    s_e.env = {"self": args["self"], "pulse": args["pulse"], "channel": args["channel"], "protocol": args["protocol"]}
    eng.cur_contract, eng.cur_fn_name = con_est, con_est.qual
    res_e = eng.exec_block(fd_est.body, s_e)
    est_calls = list(eng.watch["_Schedule.make_next_pulse_slot"])
    for kind, pay, s1 in res_e:
        if kind == RET:
            frame_obligations(eng, _RO(), c0, s1, entry_heap, normal=True)
    # 2. the same add from the same entry state, only up to its call to add_pulse
    s_a = st.copy()
    s_a.env = dict(args)
    eng.watch["_Schedule.add_pulse"] = []
    eng.stop_at = ("_Schedule.add_pulse",)
    eng.cur_contract, eng.cur_fn_name = con_add, con_add.qual
    eng.exec_block(fd_add.body, s_a)
    eng.stop_at = ()
    add_calls = list(eng.watch["_Schedule.add_pulse"])
    base = len(st.pc)
    n_pairs = 0
    for b_e, se in est_calls:
        for b_a, sa in add_calls:
            s_call = sa.copy()
            s_call.pc = list(sa.pc) + list(se.pc[base:])
            s_call.pcn = list(sa.pcn) + list(se.pcn[base:]) if len(se.pcn) == len(se.pc) else [None] * len(s_call.pc)
            s_call.tags = se.tags[-2:] + ["vs"] + sa.tags[-3:]
            if not eng.feasible(s_call):
                continue
            n_pairs += 1
            pe, pa = b_e["pulse"], b_a["pulse"]
            eng.oblige(s_call, "same-pulse-duration", p_duration(T(pe)) == p_duration(T(pa)), "relational")
            eng.oblige(s_call, "same-pulse-phase", p_phase(T(pe)) == p_phase(T(pa)), "relational")
            eng.oblige(s_call, "same-channel", T(b_e["channel"]) == T(b_a["channel"]), "relational")
            eng.oblige(s_call, "same-protocol", T(b_e["protocol"]) == T(b_a["protocol"]), "relational")
            be, ba = eng.as_seq(b_e["phase_barrier_ts"], s_call), eng.as_seq(b_a["phase_barrier_ts"], s_call)
            j = fresh("j", I)
            eng.oblige(s_call, "same-number-of-phase-barriers", be.n == ba.n, "relational")
            eng.oblige(s_call, "same-phase-barriers", z3.Implies(z3.And(0 <= j, j < be.n), z3.Select(be.arr, j) == z3.Select(ba.arr, j)), "relational")
            de, da = b_e["phase_drift_params"], b_a["phase_drift_params"]
            eng.oblige(s_call, "no-drift-parameters", z3.And(de.none if isinstance(de, OptV) else z3.BoolVal(de is None),
                                                             da.none if isinstance(da, OptV) else z3.BoolVal(da is None)), "relational")
    if n_pairs == 0 or not est_calls or not add_calls:
        eng.oblige(st, "both-reach-the-scheduler", z3.BoolVal(False), "relational")
    return [ob for ob in sink if ob.kind in ("relational", "frame")]


class _RO:
    modifies = {}


def _prefix(a, b):
    return len(a) <= len(b) and all(x.eq(y) for x, y in zip(a, b))
