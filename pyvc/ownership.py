"""Ownership / frame pass (DESIGN 2.7): syntactic frame obligations over whole files.

For every function in the given files it decides, from the AST alone (flow-insensitive, conservative):
  * no-class-state:    no store to an attribute of the class object (`cls.x = ..`, `ClassName.x = ..`, `type(self).x = ..`,
                       `setattr(cls, ..)`), and no in-place mutation of a class attribute reached through `cls`;
  * no-default-state:  a parameter whose default is a mutable literal / constructor is neither mutated nor stored;
  * no-global-state:   no `global` rebinding and no in-place mutation of a module-level list/dict/set.
Each function yields one obligation `own/<file>::<qualname>/no-shared-state`, discharged iff none of the three patterns occurs.
A violated obligation is a *fact about the source text* (exact, not a solver verdict); it is reported with the offending line.
"""
from __future__ import annotations

import ast
import os

MUTATORS = {"append", "extend", "insert", "pop", "remove", "clear", "update", "setdefault", "add", "discard", "sort", "reverse", "popitem", "__setitem__"}


def _is_mutable_default(d):
    if isinstance(d, (ast.List, ast.Dict, ast.Set, ast.ListComp, ast.DictComp, ast.SetComp)):
        return True
    if isinstance(d, ast.Call) and isinstance(d.func, ast.Name) and d.func.id in ("list", "dict", "set", "defaultdict", "OrderedDict"):
        return True
    return False


def _root_name(n):
    while isinstance(n, (ast.Attribute, ast.Subscript)):
        n = n.value
    return n.id if isinstance(n, ast.Name) else None


def _is_type_self(n):
    return isinstance(n, ast.Call) and isinstance(n.func, ast.Name) and n.func.id == "type" and len(n.args) == 1


def analyse_function(fd, class_names, module_mutables, is_classmethod):
    """-> list of (lineno, message)"""
    out = []
    params = [a.arg for a in fd.args.posonlyargs + fd.args.args + fd.args.kwonlyargs]
    cls_name = params[0] if (is_classmethod and params) else None
    defaults = list(zip([a.arg for a in (fd.args.posonlyargs + fd.args.args)][-len(fd.args.defaults):] if fd.args.defaults else [], fd.args.defaults))
    defaults += [(a.arg, d) for a, d in zip(fd.args.kwonlyargs, fd.args.kw_defaults) if d is not None]
    mutable_params = {n for n, d in defaults if _is_mutable_default(d)}
    globals_declared = set()
    for node in ast.walk(fd):
        if isinstance(node, (ast.FunctionDef, ast.Lambda)) and node is not fd:
            continue
        if isinstance(node, ast.Global):
            globals_declared.update(node.names)
    local_rebound = set()
    for node in ast.walk(fd):
        if isinstance(node, ast.Name) and isinstance(node.ctx, ast.Store):
            local_rebound.add(node.id)

    def class_target(t):
        """does the store target t write an attribute (or item of an attribute) of the class object?"""
        if isinstance(t, ast.Attribute):
            v = t.value
            if isinstance(v, ast.Name) and (v.id == cls_name or (v.id in class_names and v.id not in local_rebound and v.id not in params)):
                return True
            if _is_type_self(v):
                return True
            return class_target(v) if isinstance(v, (ast.Attribute, ast.Subscript)) and _root_is_class(v) else False
        if isinstance(t, ast.Subscript):
            return _root_is_class(t.value)
        return False

    def _root_is_class(v):
        while isinstance(v, (ast.Attribute, ast.Subscript)):
            inner = v.value
            if isinstance(v, ast.Attribute) and isinstance(inner, ast.Name) and (inner.id == cls_name or (inner.id in class_names and inner.id not in local_rebound and inner.id not in params)):
                return True
            if isinstance(v, ast.Attribute) and _is_type_self(inner):
                return True
            v = inner
        return False

    for node in ast.walk(fd):
        targets = []
        if isinstance(node, ast.Assign):
            targets = node.targets
        elif isinstance(node, (ast.AugAssign, ast.AnnAssign)):
            targets = [node.target] if getattr(node, "value", True) is not None else []
        elif isinstance(node, ast.Delete):
            targets = node.targets
        for t in targets:
            for tt in (t.elts if isinstance(t, (ast.Tuple, ast.List)) else [t]):
                if class_target(tt):
                    out.append((node.lineno, f"store to class-level state `{ast.unparse(tt)}`"))
                r = _root_name(tt)
                if isinstance(tt, (ast.Subscript, ast.Attribute)) and r in mutable_params:
                    out.append((node.lineno, f"mutation of the mutable default argument `{r}`"))
                if isinstance(tt, ast.Name) and tt.id in globals_declared:
                    out.append((node.lineno, f"rebinding of module global `{tt.id}`"))
                if isinstance(tt, (ast.Subscript,)) and r in module_mutables and r not in local_rebound and r not in params:
                    out.append((node.lineno, f"in-place write to module-level `{r}`"))
                if isinstance(tt, ast.Attribute) and isinstance(node, ast.Assign) and isinstance(node.value, ast.Name) and node.value.id in mutable_params:
                    out.append((node.lineno, f"mutable default argument `{node.value.id}` stored in `{ast.unparse(tt)}`"))
        if isinstance(node, ast.Call):
            f = node.func
            if isinstance(f, ast.Name) and f.id == "setattr" and node.args and isinstance(node.args[0], ast.Name) and \
                    (node.args[0].id == cls_name or node.args[0].id in class_names):
                out.append((node.lineno, f"setattr on the class object `{node.args[0].id}`"))
            if isinstance(f, ast.Attribute) and f.attr in MUTATORS:
                r = _root_name(f.value)
                if r in mutable_params and isinstance(f.value, ast.Name):
                    out.append((node.lineno, f"mutation of the mutable default argument `{r}` ({f.attr})"))
                if _root_is_class(f.value) or (isinstance(f.value, ast.Attribute) and class_target(f.value)):
                    out.append((node.lineno, f"in-place mutation of class-level state `{ast.unparse(f.value)}` ({f.attr})"))
                if isinstance(f.value, ast.Name) and r in module_mutables and r not in local_rebound and r not in params:
                    out.append((node.lineno, f"in-place mutation of module-level `{r}` ({f.attr})"))
    return out


def analyse_file(root, rel):
    """-> list of dict(name, ok, detail)"""
    path = os.path.join(root, rel)
    with open(path, encoding="utf-8") as fh:
        mod = ast.parse(fh.read(), filename=path)
    class_names = {n.name for n in ast.walk(mod) if isinstance(n, ast.ClassDef)}
    module_mutables = set()
    for n in mod.body:
        if isinstance(n, ast.Assign) and _is_mutable_default(n.value):
            for t in n.targets:
                if isinstance(t, ast.Name):
                    module_mutables.add(t.id)
        if isinstance(n, ast.AnnAssign) and n.value is not None and _is_mutable_default(n.value) and isinstance(n.target, ast.Name):
            module_mutables.add(n.target.id)
    out = []

    def visit(body, prefix):
        for n in body:
            if isinstance(n, ast.ClassDef):
                visit(n.body, prefix + n.name + ".")
            elif isinstance(n, (ast.FunctionDef, ast.AsyncFunctionDef)):
                decs = []
                for d in n.decorator_list:
                    dd = d.func if isinstance(d, ast.Call) else d
                    decs.append(dd.id if isinstance(dd, ast.Name) else dd.attr if isinstance(dd, ast.Attribute) else "")
                is_cm = "classmethod" in decs or n.name in ("__init_subclass__", "__new__")
                if n.name == "__init_subclass__":
                    continue      # writes to the *new subclass* being created are its construction
                viol = analyse_function(n, class_names, module_mutables, is_cm)
                out.append(dict(name=f"own/{rel}::{prefix}{n.name}/no-shared-state", ok=not viol,
                                detail="; ".join(f"line {ln}: {m}" for ln, m in viol)))
                visit(n.body, prefix + n.name + ".<locals>.")
    visit(mod.body, "")
    return out


def analyse(root, files):
    res = []
    for rel in files:
        if os.path.isdir(os.path.join(root, rel)):
            for dp, dn, fn in os.walk(os.path.join(root, rel)):
                for f in sorted(fn):
                    if f.endswith(".py"):
                        res += analyse_file(root, os.path.relpath(os.path.join(dp, f), root))
        elif os.path.exists(os.path.join(root, rel)):
            res += analyse_file(root, rel)
    return res


if __name__ == "__main__":
    import sys
    for r in analyse(sys.argv[1], sys.argv[2:]):
        if not r["ok"]:
            print(r["name"], "::", r["detail"])
