"""Loads the *real* source under the repository root and indexes functions.

Every run re-reads the files; nothing is cached between runs.
"""
from __future__ import annotations

import ast
import hashlib
import os


class SourceIndex:
    def __init__(self, root):
        self.root = root
        self.files = {}      # relpath -> (ast.Module, text)
        self.classes = {}    # class name -> (relpath, ast.ClassDef)
        self.bases = {}      # class name -> [base names]

    def load_tree(self, subdirs=("pulser-core/pulser", "pulser-simulation/pulser_simulation")):
        for sd in subdirs:
            base = os.path.join(self.root, sd)
            for dp, dn, fn in os.walk(base):
                for f in sorted(fn):
                    if f.endswith(".py"):
                        try:
                            self.load(os.path.relpath(os.path.join(dp, f), self.root))
                        except SyntaxError:
                            pass
        return self

    def load(self, rel):
        if rel in self.files:
            return self.files[rel]
        path = os.path.join(self.root, rel)
        with open(path, encoding="utf-8") as f:
            text = f.read()
        mod = ast.parse(text, filename=path)
        self.files[rel] = (mod, text)
        for node in mod.body:
            if isinstance(node, ast.ClassDef):
                self.classes[node.name] = (rel, node)
                bs = []
                for b in node.bases:
                    if isinstance(b, ast.Name):
                        bs.append(b.id)
                    elif isinstance(b, ast.Attribute):
                        bs.append(b.attr)
                    elif isinstance(b, ast.Subscript) and isinstance(b.value, ast.Name):
                        bs.append(b.value.id)
                self.bases[node.name] = bs
        return self.files[rel]

    def mro(self, cls):
        out, todo = [], [cls]
        while todo:
            c = todo.pop(0)
            if c in out:
                continue
            out.append(c)
            todo += self.bases.get(c, [])
        return out

    def find(self, rel, qual):
        """qual: 'func' | 'Class.method' | 'Class.method.<locals>.inner'.

        Returns the FunctionDef (the *last* definition with that name, so that
        @overload stubs are skipped).  For properties with a setter the getter
        is returned unless qual ends with '@setter'.
        """
        mod, _ = self.load(rel)
        want_setter = qual.endswith("@setter")
        if want_setter:
            qual = qual[: -len("@setter")]
        parts = [p for p in qual.split(".") if p != "<locals>"]
        body = mod.body
        node = None
        for i, p in enumerate(parts):
            cands = [n for n in body if isinstance(n, (ast.FunctionDef, ast.ClassDef, ast.AsyncFunctionDef)) and n.name == p]
            if not cands:
                return None
            if i == len(parts) - 1 and isinstance(cands[-1], ast.FunctionDef):
                fs = [n for n in cands if isinstance(n, ast.FunctionDef)]
                non_overload = [n for n in fs if not any(_dec_name(d) == "overload" for d in n.decorator_list)]
                fs = non_overload or fs
                setters = [n for n in fs if any(_dec_name(d).endswith(".setter") for d in n.decorator_list)]
                getters = [n for n in fs if n not in setters]
                node = (setters if want_setter else getters or fs)[-1]
            else:
                node = cands[-1]
            body = node.body
        return node

    def find_method(self, cls, name):
        """Look name up through the MRO of cls. -> (relpath, owner class, FunctionDef) | None"""
        for c in self.mro(cls):
            if c not in self.classes:
                continue
            rel, cdef = self.classes[c]
            fd = self.find(rel, f"{c}.{name}")
            if isinstance(fd, ast.FunctionDef):
                return rel, c, fd
        return None

    def module_const(self, rel, name):
        mod, _ = self.load(rel)
        for n in mod.body:
            if isinstance(n, ast.Assign) and len(n.targets) == 1 and isinstance(n.targets[0], ast.Name) and n.targets[0].id == name:
                return n.value
            if isinstance(n, ast.AnnAssign) and isinstance(n.target, ast.Name) and n.target.id == name and n.value is not None:
                return n.value
        return None

    def src_hash(self, rel, node):
        _, text = self.load(rel)
        seg = ast.get_source_segment(text, node) or ""
        return hashlib.sha256(seg.encode()).hexdigest()[:16]

    def src_text(self, rel, node):
        _, text = self.load(rel)
        return ast.get_source_segment(text, node) or ""


def _dec_name(d):
    if isinstance(d, ast.Call):
        d = d.func
    if isinstance(d, ast.Name):
        return d.id
    if isinstance(d, ast.Attribute):
        return _dec_name(d.value) + "." + d.attr
    return ""


dec_name = _dec_name
