"""Statement execution (mixin for Interp)."""
from __future__ import annotations

import ast

import z3

from .core import (I, SHAPES, ListLoc, Opaque, OptV, OutOfSubset, PyList, SeqV, SlotTy, Sym,
                   fresh, is_ref_ty, sort_of, znum)
from .contracts import Al, Ctx, Q
from .interp import Exc, MapLoc, exc_isa
from .expr import PyDict

NEXT, RET, RAISE, BRK, CONT = "next", "return", "raise", "break", "continue"


class StmtMixin:
    def exec_block(self, stmts, st):
        """-> [(kind, payload, state)]"""
        results = [(NEXT, None, st)]
        for s in stmts:
            nxt = []
            for kind, pay, s1 in results:
                if kind != NEXT:
                    nxt.append((kind, pay, s1))
                else:
                    nxt.extend(self.exec_stmt(s, s1))
            results = nxt
            if not any(k == NEXT for k, _, _ in results):
                break
        return results

    def exec_stmt(self, s, st):
        m = getattr(self, "st_" + type(s).__name__, None)
        if m is None:
            raise OutOfSubset(f"statement {type(s).__name__}", s)
        return m(s, st)

    def _ev(self, e, st, k):
        """evaluate e then continue with k(v, st) -> stmt results; Exc -> RAISE."""
        out = []
        for v, s1 in self.eval(e, st):
            if isinstance(v, Exc):
                out.append((RAISE, v, s1))
            else:
                out.extend(k(v, s1))
        return out

    def st_Pass(self, s, st):
        return [(NEXT, None, st)]

    def st_Expr(self, s, st):
        if isinstance(s.value, ast.Constant):
            return [(NEXT, None, st)]
        return self._ev(s.value, st, lambda v, s1: [(NEXT, None, s1)])

    def st_Return(self, s, st):
        if s.value is None:
            return [(RET, None, st)]
        return self._ev(s.value, st, lambda v, s1: [(RET, v, s1)])

    def st_Raise(self, s, st):
        if s.exc is None:
            return [(RAISE, st.exc or Exc("Exception"), st)]
        name = None
        e = s.exc
        if isinstance(e, ast.Call):
            e = e.func
        if isinstance(e, ast.Name):
            name = e.id
        elif isinstance(e, ast.Attribute):
            name = e.attr
        if name is None:
            raise OutOfSubset("raise of non-name", s)
        # message arguments are evaluated for their safety side conditions only if simple
        return [(RAISE, Exc(name), st)]

    def st_Assert(self, s, st):
        def k(v, s1):
            out = []
            for side, s2 in self.branch(self.truth(v, s1), s1, "assert"):
                if side:
                    out.append((NEXT, None, s2))
                else:
                    out.append((RAISE, Exc("AssertionError"), s2))
            return out
        return self._ev(s.test, st, k)

    def st_Assign(self, s, st):
        def k(v, s1):
            for t in s.targets:
                r = self.assign_target(t, v, s1, s)
                if r is not None:
                    return r
            return [(NEXT, None, s1)]
        return self._ev(s.value, st, k)

    def st_AnnAssign(self, s, st):
        if s.value is None:
            return [(NEXT, None, st)]

        def k(v, s1):
            r = self.assign_target(s.target, v, s1, s)
            return r if r is not None else [(NEXT, None, s1)]
        return self._ev(s.value, st, k)

    def st_AugAssign(self, s, st):
        load = ast.copy_location(_to_load(s.target), s.target)

        def k(vs, s1):
            out = []
            for r, s2 in self.binop(s.op, vs[0], vs[1], s1, s):
                if isinstance(r, Exc):
                    out.append((RAISE, r, s2))
                else:
                    rr = self.assign_target(s.target, r, s2, s)
                    out.extend(rr if rr is not None else [(NEXT, None, s2)])
            return out
        out = []
        for vs, s1 in self.eval_list([load, s.value], st):
            if isinstance(vs, Exc):
                out.append((RAISE, vs, s1))
            else:
                out.extend(k(vs, s1))
        return out

    def assign_target(self, t, v, st, node=None):
        """Mutates st.  Returns None normally or a list of stmt results (for raising stores)."""
        if isinstance(t, ast.Name):
            st.env[t.id] = v
            return None
        if isinstance(t, (ast.Tuple, ast.List)):
            items = v.items if isinstance(v, PyList) else v
            if not isinstance(items, (tuple, list)) or len(items) != len(t.elts):
                raise OutOfSubset("tuple unpacking of non-tuple", node)
            for tt, vv in zip(t.elts, items):
                self.assign_target(tt, vv, st, node)
            return None
        if isinstance(t, ast.Attribute):
            res = self.eval(t.value, st)
            if len(res) != 1 or isinstance(res[0][0], Exc):
                raise OutOfSubset("complex attribute target", node)
            obj, s1 = res[0]
            if isinstance(obj, OptV):
                obj = self.unopt(obj, st, node)
            if isinstance(obj, Sym) and is_ref_ty(obj.ty):
                cls = obj.ty[1]
                if t.attr in SHAPES[cls].fields:
                    self.write_field(obj.t, cls, t.attr, v, st, node)
                    return None
                # property setter?
                m = self.src.find_method(cls, t.attr)
                if m is not None:
                    rs = self.call_method(obj, cls, t.attr + "@setter", [v], {}, st, node)
                    out = []
                    for r, s2 in rs:
                        out.append((RAISE, r, s2) if isinstance(r, Exc) else (NEXT, None, s2))
                    return out
                raise OutOfSubset(f"store to undeclared field {cls}.{t.attr}", node)
            raise OutOfSubset("attribute store on non-object", node)
        if isinstance(t, ast.Subscript):
            res = self.eval_list([t.value, t.slice], st)
            if len(res) != 1 or isinstance(res[0][0], Exc):
                raise OutOfSubset("complex subscript target", node)
            (obj, k), _ = res[0]
            if isinstance(obj, ListLoc):
                n = st.heap.read(obj.key + ".len", obj.owner)
                kt, _ = znum(k)
                self.oblige(st, f"safe:index-store-in-range@{self.ntag(node)}", z3.And(kt >= -n, kt < n), "safety")
                idx = z3.If(kt < 0, kt + n, kt)
                arr = st.heap.read(obj.key + ".at", obj.owner)
                self.note_write(obj.key + ".at", obj.owner, st)
                st.heap.write(obj.key + ".at", obj.owner, z3.Store(arr, idx, self.coerce(v, obj.ety)))
                return None
            if isinstance(obj, MapLoc) and obj.mut:
                kt = self.coerce(k, obj.kty)
                self.note_write(obj.key + ".map", obj.owner, st)
                st.heap.write(obj.key + ".dom", obj.owner, z3.Store(obj.dom(st.heap), kt, z3.BoolVal(True)))
                st.heap.write(obj.key + ".map", obj.owner, z3.Store(obj.map(st.heap), kt, self.coerce(v, obj.vty)))
                return None
            if isinstance(obj, PyDict) and isinstance(k, str):
                obj.d[k] = v
                return None
            if isinstance(obj, Sym) and is_ref_ty(obj.ty):
                rs = self.call_method(obj, obj.ty[1], "__setitem__", [k, v], {}, st, node)
                return [(RAISE, r, s2) if isinstance(r, Exc) else (NEXT, None, s2) for r, s2 in rs]
            raise OutOfSubset(f"subscript store on {obj!r}", node)
        raise OutOfSubset("assignment target", node)

    def st_If(self, s, st):
        def k(v, s1):
            out = []
            for side, s2 in self.branch(self.truth(v, s1), s1, f"if{self.ntag(s)}"):
                out += self.exec_block(s.body if side else s.orelse, s2)
            return out
        return self._ev(s.test, st, k)

    def st_With(self, s, st):
        # only warnings.catch_warnings() (effect-free, A-WARN)
        for item in s.items:
            ce = item.context_expr
            ok = isinstance(ce, ast.Call) and isinstance(ce.func, ast.Attribute) and ce.func.attr == "catch_warnings"
            if not ok:
                raise OutOfSubset("with-statement other than warnings.catch_warnings", s)
        return self.exec_block(s.body, st)

    def st_Try(self, s, st):
        if s.finalbody:
            raise OutOfSubset("try/finally", s)
        out = []
        for kind, pay, s1 in self.exec_block(s.body, st):
            if kind == NEXT:
                out += self.exec_block(s.orelse, s1) if s.orelse else [(NEXT, None, s1)]
            elif kind == RAISE:
                handled = False
                for h in s.handlers:
                    names = []
                    if h.type is None:
                        names = ["BaseException"]
                    elif isinstance(h.type, ast.Tuple):
                        names = [n.id if isinstance(n, ast.Name) else n.attr for n in h.type.elts]
                    else:
                        names = [h.type.id if isinstance(h.type, ast.Name) else h.type.attr]
                    if any(exc_isa(pay.name, n) for n in names):
                        s2 = s1
                        if h.name:
                            s2.env[h.name] = Opaque("exc")
                        prev = s2.exc
                        s2.exc = pay
                        for k2, p2, s3 in self.exec_block(h.body, s2):
                            s3.exc = prev
                            out.append((k2, p2, s3))
                        handled = True
                        break
                if not handled:
                    out.append((kind, pay, s1))
            else:
                out.append((kind, pay, s1))
        return out

    def st_FunctionDef(self, s, st):
        from .core import Closure
        clo = Closure(s, st.env, None)   # env shared by reference: closure sees later bindings
        clo.file = self.file
        clo.dynamic_env = True
        if s.decorator_list and self.has_seq_decorators(s):
            clo = self.decorated(s, clo)
        st.env[s.name] = clo
        return [(NEXT, None, st)]

    def st_Break(self, s, st):
        return [(BRK, None, st)]

    def st_Continue(self, s, st):
        return [(CONT, None, st)]

    def st_Delete(self, s, st):
        raise OutOfSubset("del", s)

    def st_While(self, s, st):
        raise OutOfSubset("while loop", s)

    # ------------------------------------------------------------ for loops
    def st_For(self, s, st):
        t = self.ntag(s)
        ordinal = int(t[1:]) if t[1:].isdigit() else self.next_loop_ordinal()
        return self._ev(s.iter, st, lambda it, s1: self.run_for(s, it, s1, ordinal))

    def next_loop_ordinal(self):
        self.loop_counter[0] += 1
        return self.loop_counter[0] - 1

    def iter_domain(self, it, st, node):
        """-> ('concrete', [items]) | ('sym', n_term, elem_fn(j)->Value)"""
        if isinstance(it, (PyList, tuple)) and not isinstance(it, PyDict):
            return ("concrete", it.items if isinstance(it, PyList) else list(it))
        if isinstance(it, IterV):
            return it.domain(self, st)
        if isinstance(it, (ListLoc, SeqV)):
            sv = self.as_seq(it, st)
            return ("sym", sv.n, lambda j: self.wrap_elem(sv, j))
        if isinstance(it, Sym) and it.ty == "qset":
            return qset_domain(self, it, st)
        if isinstance(it, Sym) and is_ref_ty(it.ty):
            m = self.models.get(f"{it.ty[1]}.__iter__")
            if m:
                return self.iter_domain(m(self, it, st), st, node)
        raise OutOfSubset(f"iteration over {it!r}", node)

    def run_for(self, s, it, st, ordinal):
        dom = self.iter_domain(it, st, s)
        if dom[0] == "concrete":
            return self.unroll_for(s, dom[1], st)
        _, n, elem = dom
        spec = (self.cur_contract.loops if self.cur_contract else {}).get(ordinal)
        if spec is None:
            raise OutOfSubset(f"loop #{ordinal} over a symbolic iterable without an invariant", s)
        lname = f"loop[{ordinal}]"
        # variables assigned in the body
        assigned = sorted(_assigned_names(s.body) | _assigned_names([ast.Assign(targets=[s.target], value=None)]))
        pre = st

        def inv_clauses(state, j):
            c = Ctx(self.fn_args, self.entry_heap, state.heap, st=state, j=j, extra={"n": n, "elem": elem, "pre": pre})
            return spec.inv(c)

        # init
        self.check_clauses(st, inv_clauses(st, z3.IntVal(0)), f"{lname}:init", "loop-init")
        # arbitrary iteration
        j = fresh("j", I)
        body_st = st.copy()
        self.havoc_vars(body_st, assigned, spec, pre)
        self.havoc_heap(body_st, spec.modifies)
        body_st.assume(j >= 0, j < n)
        self.assume_clauses(body_st, inv_clauses(body_st, j))
        body_st.tags.append(f"{lname}")
        self.assign_target(s.target, elem(j), body_st, s)
        out = []
        saved = self.loop_counter
        for kind, pay, s1 in self.exec_block(s.body, body_st):
            if kind in (NEXT, CONT):
                self.check_clauses(s1, inv_clauses(s1, j + 1), f"{lname}:pres", "loop-pres")
            elif kind == BRK:
                s1.tags.append("brk")
                out.append((NEXT, None, s1))
            else:
                out.append((kind, pay, s1))
        # exhausted
        ex = st.copy()
        self.havoc_vars(ex, assigned, spec, pre)
        self.havoc_heap(ex, spec.modifies)
        self.assume_clauses(ex, inv_clauses(ex, n))
        ex.assume(n >= 0)
        ex.tags.append(f"{lname}:done")
        if s.orelse:
            out += self.exec_block(s.orelse, ex)
        else:
            out.append((NEXT, None, ex))
        return out

    def unroll_for(self, s, items, st):
        results = [(NEXT, None, st)]
        for item in items:
            nxt = []
            for kind, pay, s1 in results:
                if kind != NEXT:
                    nxt.append((kind, pay, s1))
                    continue
                self.assign_target(s.target, item, s1, s)
                for k2, p2, s2 in self.exec_block(s.body, s1):
                    if k2 == CONT:
                        nxt.append((NEXT, None, s2))
                    elif k2 == BRK:
                        nxt.append(("brk-out", None, s2))
                    else:
                        nxt.append((k2, p2, s2))
            results = nxt
        out = []
        for kind, pay, s1 in results:
            if kind == NEXT:
                out += self.exec_block(s.orelse, s1) if s.orelse else [(NEXT, None, s1)]
            elif kind == "brk-out":
                out.append((NEXT, None, s1))
            else:
                out.append((kind, pay, s1))
        return out

    def havoc_vars(self, st, names, spec, pre):
        for nm in names:
            if nm in spec.havoc_types:
                ty = spec.havoc_types[nm]
            elif nm in pre.env:
                v = pre.env[nm]
                try:
                    ty = self.type_of(v)
                except OutOfSubset:
                    if isinstance(v, OptV):
                        st.env[nm] = OptV(fresh(nm + "?", z3.BoolSort()), Sym(fresh(nm, sort_of(v.val.ty)), v.val.ty))
                        continue
                    st.env.pop(nm, None)
                    continue
            else:
                st.env.pop(nm, None)
                continue
            st.env[nm] = Sym(fresh(nm, sort_of(ty)), ty)

    def havoc_heap(self, st, keys):
        from .core import HEAP_SORTS
        for k in keys:
            st.heap.set(k, fresh("H." + k, HEAP_SORTS[k]))

    # ------------------------------------------------------------ clauses
    def check_clauses(self, st, clauses, label, kind):
        for name, cl in clauses:
            self.check_clause(st, f"{label}/{name}", cl, kind)

    def check_clause(self, st, name, cl, kind):
        from .contracts import Bridge
        if isinstance(cl, Bridge):
            cl = cl.prove
        if isinstance(cl, Q):
            vs = [fresh("k", so) for so in cl.sorts]
            prem, concl = cl.body(*vs)
            st2 = st.copy()
            splits = list(cl.split)
            generic_hyp = [prem] + [vs[0] != t for t in splits]
            self._goal(st2, name, generic_hyp, concl, kind)
            for i, t in enumerate(splits):
                p2 = z3.substitute(prem, (vs[0], t))
                c2 = concl
                if isinstance(concl, Al):
                    c2 = Al(z3.substitute(concl.c, (vs[0], t)), z3.substitute(concl.x, (vs[0], t)))
                else:
                    c2 = z3.substitute(concl, (vs[0], t))
                self._goal(st.copy(), f"{name}@split{i}", [p2], c2, kind)
        else:
            self._goal(st, name, [], cl, kind)

    def _goal(self, st, name, hyps, concl, kind):
        meta = {}
        if isinstance(concl, Al):
            from .contracts import al_goal, _sel_simp
            x = self.prune_zero_summands(st, hyps, _sel_simp(concl.x))
            g, used = al_goal(Al(_sel_simp(concl.c), x), st.defs)
            meta = {"al": True, "al_witness": used, "al_mod": (concl.x % concl.c == 0)}
            concl = g
        if isinstance(concl, bool):
            concl = z3.BoolVal(concl)
        goal = z3.Implies(z3.And(*hyps), concl) if hyps else concl
        self.oblige(st, name, goal, kind, meta)

    def prune_zero_summands(self, st, hyps, x):
        """drop summands of x that the path condition forces to 0 (keeps the witness decomposition simple)."""
        for lhs, rhs in st.defs:
            pass
        x2 = z3.substitute(x, *st.defs) if st.defs else x
        if not z3.is_add(x2):
            return x
        keep = []
        for t in x2.children():
            if z3.is_int_value(t) or z3.is_const(t) or (z3.is_app(t) and t.decl().kind() == z3.Z3_OP_UNINTERPRETED):
                keep.append(t)
                continue
            s = z3.Solver()
            s.set("timeout", 1500)
            for a in self.axioms:
                s.add(a)
            for p in st.pc:
                if not z3.is_quantifier(p):
                    s.add(p)
            for h in hyps:
                s.add(h)
            s.add(t != 0)
            if s.check() == z3.unsat:
                continue
            keep.append(t)
        if len(keep) == len(x2.children()):
            return x
        return z3.Sum(keep) if keep else z3.IntVal(0)

    def assume_clauses(self, st, clauses):
        for name, cl in clauses:
            st.assume(self.clause_formula(cl), name=name)

    def clause_formula(self, cl):
        from .contracts import al_assume, Bridge
        if isinstance(cl, Bridge):
            cl = cl.assume
        if isinstance(cl, Q):
            vs = [z3.Const(f"k!{i}!{id(cl) % 100000}", so) for i, so in enumerate(cl.sorts)]
            prem, concl = cl.body(*vs)
            if isinstance(concl, Al):
                concl = al_assume(concl)
            body = z3.Implies(prem, concl)
            pats = cl.pats(*vs) if cl.pats else None
            if pats:
                return z3.ForAll(vs, body, patterns=[p if isinstance(p, z3.PatternRef) else z3.MultiPattern(*p) if isinstance(p, (list, tuple)) else p for p in pats])
            return z3.ForAll(vs, body)
        if isinstance(cl, Al):
            return al_assume(cl)
        if isinstance(cl, bool):
            return z3.BoolVal(cl)
        return cl


class IterV:
    """enumerate / range / zip / dict.items views."""

    def __init__(self, kind, parts):
        self.kind, self.parts = kind, parts

    def domain(self, interp, st):
        if getattr(self, "_dom", None) is None:
            self._dom = self._domain(interp, st)
        return self._dom

    def _domain(self, interp, st):
        if self.kind == "enumerate":
            inner = interp.iter_domain(self.parts[0], st, None)
            if inner[0] == "concrete":
                return ("concrete", [(i, x) for i, x in enumerate(inner[1])])
            _, n, elem = inner
            return ("sym", n, lambda j: (Sym(j, "int"), elem(j)))
        if self.kind == "range":
            lo, hi, step = self.parts
            if all(isinstance(x, int) for x in (lo, hi, step)):
                return ("concrete", list(range(lo, hi, step)))
            lo_t, hi_t = znum(lo)[0], znum(hi)[0]
            if step == 1:
                n = z3.If(hi_t > lo_t, hi_t - lo_t, 0)
                return ("sym", n, lambda j: Sym(lo_t + j, "int"))
            if step == -1:
                n = z3.If(lo_t > hi_t, lo_t - hi_t, 0)
                return ("sym", n, lambda j: Sym(lo_t - j, "int"))
            raise OutOfSubset("range with symbolic step")
        if self.kind == "items":
            ml = self.parts[0]
            # abstract enumeration order of the keys: bijection [0,n) -> dom
            return ml_items_domain(interp, ml, st, self.parts[1])
        raise OutOfSubset(f"iterator {self.kind}")


def qset_domain(interp, sv, st):
    """abstract enumeration of a set of qubit ids: a bijection [0,n) -> members (order unconstrained)."""
    from .core import Qid
    cached = getattr(st, "_qdoms", None)
    if cached is None:
        cached = st._qdoms = {}
    key = sv.t.get_id()
    if key in cached:
        n, order, idx = cached[key]
    else:
        # the enumeration is a function of the set value (iterating an unmodified set twice gives the same order)
        from .core import QSet, uf
        n = uf("QCARD", QSet, I)(sv.t)
        order = uf("QORDER", QSet, z3.ArraySort(I, Qid))(sv.t)
        idx = uf("QIDX", QSet, z3.ArraySort(Qid, I))(sv.t)
        j = z3.Int("j!qo")
        q = z3.Const("q!qo", Qid)
        st.assume(n >= 0,
                  z3.ForAll([j], z3.Implies(z3.And(j >= 0, j < n), z3.And(z3.Select(sv.t, z3.Select(order, j)), z3.Select(idx, z3.Select(order, j)) == j)), patterns=[z3.Select(order, j)]),
                  z3.ForAll([q], z3.Implies(z3.Select(sv.t, q), z3.And(z3.Select(idx, q) >= 0, z3.Select(idx, q) < n, z3.Select(order, z3.Select(idx, q)) == q)),
                            patterns=[z3.Select(idx, q), z3.Select(sv.t, q)]),
                  name="set-enumeration")
        cached[key] = (n, order, idx)
    st.env["__qorder__"] = Sym(order, "opaque")
    st.env["__qidx__"] = Sym(idx, "opaque")
    return ("sym", n, lambda jj: Sym(z3.Select(order, jj), "qid"))


def ml_items_domain(interp, ml, st, what="items"):
    from .core import uf, Ref
    ks = sort_of(ml.kty)
    n = uf(ml.key + ".size", Ref, I)(ml.owner) if not ml.mut else fresh("nkeys", I)
    order = fresh("keyorder", z3.ArraySort(I, ks))
    dom, mp = ml.dom(st.heap), ml.map(st.heap)
    j = z3.Int("j!ko")
    k = z3.Const("k!ko", ks)
    idx = fresh("keyidx", z3.ArraySort(ks, I))
    st.assume(n >= 0,
              z3.ForAll([j], z3.Implies(z3.And(j >= 0, j < n), z3.And(z3.Select(dom, z3.Select(order, j)), z3.Select(idx, z3.Select(order, j)) == j)), patterns=[z3.Select(order, j)]),
              z3.ForAll([k], z3.Implies(z3.Select(dom, k), z3.And(z3.Select(idx, k) >= 0, z3.Select(idx, k) < n, z3.Select(order, z3.Select(idx, k)) == k)), patterns=[z3.Select(idx, k)]))
    st.env["__keyidx__"] = Sym(idx, "opaque")
    st.env["__keyorder__"] = Sym(order, "opaque")

    def elem(jj):
        key = z3.Select(order, jj)
        if what == "keys":
            return Sym(key, ml.kty)
        if what == "values":
            return Sym(z3.Select(mp, key), ml.vty)
        return (Sym(key, ml.kty), Sym(z3.Select(mp, key), ml.vty))
    return ("sym", n, elem)


def _assigned_names(stmts):
    out = set()

    class V(ast.NodeVisitor):
        def visit_Name(self, n):
            if isinstance(n.ctx, ast.Store):
                out.add(n.id)

        def visit_FunctionDef(self, n):
            out.add(n.name)

        def visit_Lambda(self, n):
            pass

        def visit_ListComp(self, n):
            self.visit(n.elt) if False else None

        visit_SetComp = visit_GeneratorExp = visit_DictComp = visit_ListComp

    for s in stmts:
        if isinstance(s, ast.Assign) and s.value is None:
            for t in s.targets:
                V().visit(t)
        else:
            V().visit(s)
    return out


def _to_load(t):
    import copy
    t2 = copy.deepcopy(t)
    for n in ast.walk(t2):
        if hasattr(n, "ctx"):
            n.ctx = ast.Load()
    return t2
