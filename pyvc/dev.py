"""Developer runner:  python3-vt -m pyvc.dev <qualname> [...]"""
import sys
import time

import z3

from .source import SourceIndex
from .contracts import REGISTRY
from .models import MODELS
from .vc import verify_function, discharge


def load_contracts():
    import contracts.shapes  # noqa
    import importlib
    import pkgutil
    import contracts
    for m in pkgutil.iter_modules(contracts.__path__):
        if m.name not in ("shapes", "lib"):
            importlib.import_module("contracts." + m.name)


def main(argv):
    load_contracts()
    import os
    src = SourceIndex(os.environ.get("PYVC_ROOT", "/repo")).load_tree()
    verbose = "-v" in argv
    names = [a for a in argv if not a.startswith("-")] or [q for q, c in REGISTRY.items() if not c.inline and not c.trusted]
    tot = bad = 0
    for q in names:
        con = REGISTRY[q]
        t0 = time.time()
        from contracts.lib import AXIOMS
        r = verify_function(src, con, MODELS, axioms=[f for _, f, _ in AXIOMS])
        if r["error"]:
            print(f"{q}: ERROR {r['error']}")
            bad += 1
            continue
        res = []
        for ob in r["obligations"]:
            d = discharge(ob)
            res.append((ob, d))
        nun = sum(1 for _, d in res if d["verdict"] != "unsat")
        tot += len(res)
        bad += nun
        print(f"{q}: paths={r['paths']} obligations={len(res)} not-discharged={nun} ({time.time()-t0:.1f}s)")
        for ob, d in res:
            if d["verdict"] != "unsat" or verbose:
                print(f"   {d['verdict']:8s} {d['time_s']:.3f}s {ob.name}")
                if d["verdict"] == "sat" and "-m" in argv:
                    print("      model:", {k: v for k, v in d["model"].items() if len(v) < 40})
    print(f"total obligations {tot}, not discharged {bad}")


if __name__ == "__main__":
    main(sys.argv[1:])
