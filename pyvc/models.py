"""Models of builtins and of the few library calls the verified code makes.

Each model: f(interp, args, kwargs, st, node) -> [(value | Exc, st)]
"""
from __future__ import annotations

import z3

from .core import (B, I, R, SHAPES, FuncRef, ListLoc, Opaque, OptV, OutOfSubset, PyList, Qid, Ref,
                   SeqV, SlotTy, Sym, fresh, is_ref_ty, isinstance_term, sort_of, str_const,
                   to_real, znum)
from .interp import Exc, MapLoc
from .expr import PyDict, SymComp
from .stmt import IterV
from .calls import StarArg

MODELS = {"__consts__": {}}


def model(name):
    def deco(f):
        MODELS[name] = f
        return f
    return deco


def _num(interp, v, st, node):
    v = interp.unopt(v, st, node)
    return znum(v)


@model("int")
def m_int(ip, args, kw, st, node):
    v = args[0]
    if isinstance(v, (int, float)) and not isinstance(v, bool):
        return [(int(v), st)]
    if isinstance(v, bool):
        return [(int(v), st)]
    if v is None:
        return [(Exc("TypeError"), st)]
    if isinstance(v, OptV):
        out = []
        for side, s2 in ip.branch(v.none, st, "int(None)"):
            if side:
                out.append((Exc("TypeError"), s2))
            else:
                out += m_int(ip, [v.val], kw, s2, node)
        return out
    t, k = znum(v)
    if k == "int":
        return [(Sym(t, "int"), st)]
    # truncation toward zero
    fl = z3.ToInt(t)
    r = z3.If(t >= 0, fl, z3.If(z3.ToReal(fl) == t, fl, fl + 1))
    return [(Sym(r, "int"), st)]


@model("float")
def m_float(ip, args, kw, st, node):
    v = args[0]
    if isinstance(v, (int, float)):
        return [(float(v), st)]
    t, k = _num(ip, v, st, node)
    return [(Sym(to_real(t), "real"), st)]


@model("bool")
def m_bool(ip, args, kw, st, node):
    t = ip.truth(args[0], st)
    return [(ip.as_bool_val(t), st)]


@model("len")
def m_len(ip, args, kw, st, node):
    v = args[0]
    if isinstance(v, (PyList, tuple)):
        return [(len(v.items if isinstance(v, PyList) else v), st)]
    if isinstance(v, (ListLoc, SeqV)):
        return [(Sym(ip.as_seq(v, st).n, "int"), st)]
    if isinstance(v, Sym) and v.ty == "qset":
        card = z3.Function("card", z3.ArraySort(Qid, B), I)
        n = card(v.t)
        q = z3.Const("q!card", Qid)
        st.assume(n >= 0, (n == 0) == z3.ForAll([q], z3.Not(z3.Select(v.t, q))))
        return [(Sym(n, "int"), st)]
    if isinstance(v, Sym) and is_ref_ty(v.ty):
        return ip.call_method(v, v.ty[1], "__len__", [], {}, st, node)
    from .expr import ImgSet, ImgSetQ
    if isinstance(v, ImgSetQ):
        n = fresh("ndistinct", I)
        a, b = z3.Const("qa!ds", Qid), z3.Const("qb!ds", Qid)
        va, vb = v.val(a), v.val(b)
        alleq = z3.ForAll([a, b], z3.Implies(z3.And(z3.Select(v.dom, a), z3.Select(v.dom, b)), va == vb),
                          patterns=[z3.MultiPattern(z3.Select(v.dom, a), z3.Select(v.dom, b))])
        nonempty = z3.Exists([a], z3.Select(v.dom, a))
        st.assume(n >= 0, (n == 0) == z3.Not(nonempty), (n == 1) == z3.And(nonempty, alleq))
        return [(Sym(n, "int"), st)]
    if isinstance(v, ImgSet):
        # number of distinct values: 0 iff empty, 1 iff non-empty and all equal, >= 2 otherwise
        sq = v.seq
        n = fresh("ndistinct", I)
        a, b = z3.Int("a!ds"), z3.Int("b!ds")
        alleq = z3.ForAll([a, b], z3.Implies(z3.And(0 <= a, a < sq.n, 0 <= b, b < sq.n), z3.Select(sq.arr, a) == z3.Select(sq.arr, b)),
                          patterns=[z3.MultiPattern(z3.Select(sq.arr, a), z3.Select(sq.arr, b))])
        st.assume(n >= 0, n <= sq.n, (n == 0) == (sq.n == 0), (n == 1) == z3.And(sq.n >= 1, alleq))
        return [(Sym(n, "int"), st)]
    raise OutOfSubset(f"len of {v!r}", node)


@model("abs")
def m_abs(ip, args, kw, st, node):
    v = args[0]
    if isinstance(v, (int, float)):
        return [(abs(v), st)]
    t, k = _num(ip, v, st, node)
    return [(Sym(z3.If(t >= 0, t, -t), k), st)]


def _minmax(ip, args, kw, st, node, is_max):
    items = []
    star = None
    if len(args) == 1 and not isinstance(args[0], StarArg):
        a = args[0]
        if isinstance(a, (PyList, tuple)):
            items = list(a.items if isinstance(a, PyList) else a)
        elif isinstance(a, SymComp):
            return _minmax_comp(ip, a, st, node, is_max)
        elif isinstance(a, (SeqV, ListLoc)):
            star = ip.as_seq(a, st)
        else:
            raise OutOfSubset(f"max/min of {a!r}", node)
    else:
        for a in args:
            if isinstance(a, StarArg):
                star = ip.as_seq(a.v, st)
            else:
                items.append(a)
    if not items and star is None:
        return [(Exc("ValueError"), st)]
    if all(isinstance(x, (int, float)) for x in items) and star is None:
        return [((max if is_max else min)(items), st)]
    nums = [_num(ip, x, st, node) for x in items]
    kind = "real" if any(k == "real" for _, k in nums) else "int"
    if star is not None and star.ety == "real":
        kind = "real"
    ts = [to_real(t) if kind == "real" else t for t, _ in nums]
    if star is None:
        r = ts[0]
        for t in ts[1:]:
            r = z3.If(t > r, t, r) if is_max else z3.If(t < r, t, r)
        return [(Sym(r, kind), st)]
    # symbolic list part: fresh m with defining axioms
    m = fresh("mx" if is_max else "mn", R if kind == "real" else I)
    j = z3.Int("j!mm")
    el = lambda idx: (to_real(z3.Select(star.arr, idx)) if kind == "real" and star.ety == "int" else z3.Select(star.arr, idx))
    ge = (lambda a, b: a >= b) if is_max else (lambda a, b: a <= b)
    st.assume(*[ge(m, t) for t in ts])
    try:
        st.assume(z3.ForAll([j], z3.Implies(z3.And(j >= 0, j < star.n), ge(m, el(j))), patterns=[z3.Select(star.arr, j)]))
    except z3.Z3Exception:
        st.assume(z3.ForAll([j], z3.Implies(z3.And(j >= 0, j < star.n), ge(m, el(j)))))
    w = fresh("jw", I)
    st.assume(z3.Or(*[m == t for t in ts], z3.And(w >= 0, w < star.n, m == el(w))))
    if not ts:
        out = []
        for side, s2 in ip.branch(star.n == 0, st, "max-empty"):
            out.append((Exc("ValueError"), s2) if side else (Sym(m, kind), s2))
        return out
    return [(Sym(m, kind), st)]


def _minmax_comp(ip, comp, st, node, is_max):
    """max(f(x) for x in symbolic-iterable): f evaluated on a generic element; must be single-path."""
    g = comp.node.generators[0]
    if g.ifs:
        raise OutOfSubset("filtered generator in max/min", node)
    dom = ip.iter_domain(comp.it, st, node)
    if dom[0] == "concrete":
        raise OutOfSubset("concrete comp reached _minmax_comp", node)
    _, n, elem = dom

    def body(jt, s):
        s2 = s.copy()
        s2.env = dict(comp.env)
        ip.assign_target(g.target, elem(jt), s2, node)
        res = ip.eval(comp.node.elt, s2)
        return res
    j = fresh("j", I)
    s_probe = st.copy()
    s_probe.assume(j >= 0, j < n)
    res = body(j, s_probe)
    res = [(v, s) for v, s in res]
    if len(res) != 1 or isinstance(res[0][0], Exc):
        raise OutOfSubset("generator body in max/min is not single-path/pure", node)
    v, s_after = res[0]
    t, kind = znum(v)
    new_pc = s_after.pc[len(s_probe.pc):]
    jj = z3.Int("j!gen")
    body_facts = z3.And(*new_pc) if new_pc else z3.BoolVal(True)
    # the callee contract facts are stated for the fresh j; generalise them over j
    fv = _fresh_consts_introduced(new_pc + [t], st)
    m = fresh("mx" if is_max else "mn", sort_of(kind))
    ge = (lambda a, b: a >= b) if is_max else (lambda a, b: a <= b)
    out = []
    for side, s2 in ip.branch(n == 0, st, "max-empty"):
        if side:
            out.append((Exc("ValueError"), s2))
            continue
        # for all elements: exists body result r with facts, and m >= r ; plus witness index
        gen_term = GenTerm(j, t, new_pc, fv)
        s2.assume(gen_term.forall(lambda idx, val: z3.Implies(z3.And(idx >= 0, idx < n), ge(m, val))))
        w = fresh("jw", I)
        wv, wfacts = gen_term.instance(w)
        s2.assume(w >= 0, w < n, *wfacts, m == wv)
        s2.env["__gen__"] = gen_term
        out.append((Sym(m, kind), s2))
    return out


class GenTerm:
    """value(j) of a generator body with the facts its evaluation assumed (skolem consts generalised to functions of j)."""

    def __init__(self, j, val, facts, fresh_consts):
        self.j, self.val, self.facts, self.fc = j, val, facts, fresh_consts
        self.funs = [z3.Function(f"gen!{c.decl().name()}", I, c.sort()) for c in fresh_consts]

    def instance(self, idx):
        subs = [(self.j, idx)] + [(c, f(idx)) for c, f in zip(self.fc, self.funs)]
        return z3.substitute(self.val, *subs), [z3.substitute(f, *subs) for f in self.facts]

    def forall(self, mk):
        jj = z3.Int("j!G")
        v, facts = self.instance(jj)
        body = z3.And(*facts, mk(jj, v)) if facts else mk(jj, v)
        pats = [f(jj) for f in self.funs] or None
        if pats:
            return z3.ForAll([jj], body, patterns=[pats[0]])
        return z3.ForAll([jj], body)


def _fresh_consts_introduced(terms, st):
    """uninterpreted constants in terms that do not occur in st.pc / st.env (i.e. introduced by the body eval)."""
    seen_old = set()

    def collect(t, acc):
        todo = [t]
        visited = set()
        while todo:
            x = todo.pop()
            if x.get_id() in visited:
                continue
            visited.add(x.get_id())
            if z3.is_const(x) and x.decl().kind() == z3.Z3_OP_UNINTERPRETED:
                acc[x.get_id()] = x
            todo.extend(x.children())
    old = {}
    for p in st.pc:
        collect(p, old)
    new = {}
    for t in terms:
        collect(t, new)
    return [c for i, c in new.items() if i not in old and "!" in c.decl().name() and not c.decl().name().startswith("j!")]


@model("max")
def m_max(ip, args, kw, st, node):
    return _minmax(ip, args, kw, st, node, True)


@model("min")
def m_min(ip, args, kw, st, node):
    return _minmax(ip, args, kw, st, node, False)


@model("isinstance")
def m_isinstance(ip, args, kw, st, node):
    v, c = args
    classes = [c] if isinstance(c, FuncRef) else list(c)
    names = [x.qual for x in classes]
    if isinstance(v, SlotTy):
        if names == ["Pulse"]:
            return [(Sym(v.kind == 2, "bool"), st)]
        if names == ["str"]:
            return [(Sym(v.kind != 2, "bool"), st)]
    if isinstance(v, OptV):
        inner = m_isinstance(ip, [v.val, c], kw, st, node)[0][0]
        it = z3.BoolVal(inner) if isinstance(inner, bool) else inner.t
        return [(Sym(z3.And(z3.Not(v.none), it), "bool"), st)]
    if isinstance(v, Sym) and is_ref_ty(v.ty):
        conds = []
        for n in names:
            if n in SHAPES:
                conds.append(isinstance_term(v.t, n))
            elif n == "Parametrized":
                ps = [k for k in ("Variable", "VariableItem", "ParamObj") if k in SHAPES]
                conds.append(z3.Or(*[isinstance_term(v.t, k) for k in ps]) if ps else z3.BoolVal(False))
            else:
                conds.append(z3.BoolVal(False))
        return [(Sym(z3.Or(*conds), "bool"), st)]
    pyt = {"int": int, "float": float, "str": str, "bool": bool}
    if isinstance(v, (bool, int, float, str)):
        return [(any(isinstance(v, pyt[n]) for n in names if n in pyt), st)]
    if isinstance(v, Sym):
        m = {"int": ["int"], "real": ["float"], "str": ["str"], "bool": ["bool", "int"]}.get(v.ty, [])
        return [(any(n in m for n in names), st)]
    if v is None:
        return [(False, st)]
    if isinstance(v, (PyList, tuple)):
        kind = "tuple" if isinstance(v, tuple) else v.kind
        return [(kind in names, st)]
    raise OutOfSubset(f"isinstance({v!r}, {names})", node)


@model("cast")
def m_cast(ip, args, kw, st, node):
    t, v = args
    if isinstance(t, FuncRef) and t.kind == "class" and t.qual in SHAPES:
        if isinstance(v, OptV):
            v = ip.unopt(v, st, node) if False else v.val if True else v
        if isinstance(v, Sym) and is_ref_ty(v.ty):
            return [(Sym(v.t, ("ref", t.qual)), st)]
    return [(v, st)]


@model("hasattr")
def m_hasattr(ip, args, kw, st, node):
    v, name = args
    if isinstance(v, Sym) and is_ref_ty(v.ty) and isinstance(name, str):
        cls = v.ty[1]
        if ("$has_" + name) in SHAPES[cls].fields:
            return [(ip.read_field(v.t, cls, "$has_" + name, st), st)]
        return [(name in SHAPES[cls].fields or ip.src.find_method(cls, name) is not None, st)]
    raise OutOfSubset("hasattr", node)


@model("getattr")
def m_getattr(ip, args, kw, st, node):
    v, name = args[0], args[1]
    if isinstance(name, str):
        return ip.getattr(v, name, st, node)
    raise OutOfSubset("getattr with symbolic name", node)


@model("set")
def m_set(ip, args, kw, st, node):
    if not args:
        return [(Sym(z3.K(Qid, z3.BoolVal(False)), "qset"), st)]
    v = args[0]
    if isinstance(v, Sym) and v.ty == "qset":
        return [(v, st)]
    if isinstance(v, (PyList, tuple)):
        return [(ip.make_qset(list(v.items if isinstance(v, PyList) else v), st), st)]
    raise OutOfSubset(f"set({v!r})", node)


@model("dict")
def m_dict(ip, args, kw, st, node):
    """dict(k=v, ...) / dict(d): a concrete-key dictionary local to the path"""
    if not args:
        return [(PyDict(dict(kw)), st)]
    if len(args) == 1 and isinstance(args[0], PyDict):
        return [(PyDict(dict(args[0].d, **kw)), st)]
    raise OutOfSubset(f"dict({args!r})", node)


@model("tuple")
def m_tuple(ip, args, kw, st, node):
    if not args:
        return [((), st)]
    v = args[0]
    if isinstance(v, PyList):
        return [(tuple(v.items), st)]
    if isinstance(v, tuple):
        return [(v, st)]
    if isinstance(v, (IterV, SeqV)):
        return [(v, st)]
    raise OutOfSubset(f"tuple({v!r})", node)


@model("list")
def m_list(ip, args, kw, st, node):
    if not args:
        return [(PyList([]), st)]
    v = args[0]
    if isinstance(v, (PyList, tuple)):
        return [(PyList(list(v.items if isinstance(v, PyList) else v)), st)]
    if isinstance(v, (SeqV, ListLoc)):
        return [(ip.as_seq(v, st), st)]
    raise OutOfSubset(f"list({v!r})", node)


@model("enumerate")
def m_enumerate(ip, args, kw, st, node):
    return [(IterV("enumerate", [args[0]]), st)]


@model("range")
def m_range(ip, args, kw, st, node):
    if len(args) == 1:
        lo, hi, step = 0, args[0], 1
    elif len(args) == 2:
        lo, hi, step = args[0], args[1], 1
    else:
        lo, hi, step = args
    return [(IterV("range", [lo, hi, step]), st)]


@model("warnings.warn")
def m_warn(ip, args, kw, st, node):
    return [(None, st)]   # A-WARN


@model("warnings.simplefilter")
def m_simplefilter(ip, args, kw, st, node):
    return [(None, st)]


@model("np.clip")
def m_clip(ip, args, kw, st, node):
    x, lo, hi = args
    tx, kx = _num(ip, x, st, node)
    tl, kl = _num(ip, lo, st, node)
    th, kh = _num(ip, hi, st, node)
    kind = "real" if "real" in (kx, kl, kh) else "int"
    if kind == "real":
        tx, tl, th = to_real(tx), to_real(tl), to_real(th)
    # numpy: minimum(maximum(x, lo), hi)
    mx = z3.If(tx >= tl, tx, tl)
    return [(Sym(z3.If(mx <= th, mx, th), kind), st)]


@model("pm.AbstractArray")
def m_absarr(ip, args, kw, st, node):
    v = args[0]
    if isinstance(v, (int, float)):
        return [(float(v), st)]
    return [(v, st)]   # scalars: identity (A-REAL)


@model("str")
def m_str(ip, args, kw, st, node):
    return [(Opaque("str"), st)]


@model("repr")
def m_repr(ip, args, kw, st, node):
    return [(Opaque("str"), st)]


class PyType:
    """type(obj) of an instance of a repository class: its dynamic class id"""

    def __init__(self, cid):
        self.cid = cid


@model("type")
def m_type(ip, args, kw, st, node):
    v = args[0]
    if isinstance(v, OptV):
        v = ip.unopt(v, st, node)
    if isinstance(v, Sym) and is_ref_ty(v.ty):
        from .core import dyn_class
        return [(PyType(dyn_class(v.t)), st)]
    return [(Opaque("type"), st)]


def _quant_comp(ip, comp, st, node, is_any):
    g = comp.node.generators[0]
    dom = ip.iter_domain(comp.it, st, node)
    _, n, elem = dom
    j = fresh("j", I)
    s2 = st.copy()
    s2.env = dict(comp.env)
    s2.assume(j >= 0, j < n)
    ip.assign_target(g.target, elem(j), s2, node)
    base = len(s2.pc)
    conds = list(g.ifs)
    if conds:
        raise OutOfSubset("filtered generator in any/all", node)
    res = ip.eval(comp.node.elt, s2)
    # merge paths: value is a boolean; each path contributes (pathcond -> value)
    disj = []
    for v, s3 in res:
        if isinstance(v, Exc):
            raise OutOfSubset("raising generator body in any/all", node)
        t = ip.truth(v, s3)
        t = z3.BoolVal(t) if isinstance(t, bool) else t
        disj.append(z3.And(*s3.pc[base:], t))
    body = z3.Or(*disj) if len(disj) != 1 else disj[0]
    fv = _fresh_consts_introduced([body], st)
    fv = [c for c in fv if not c.eq(j)]
    if fv:
        raise OutOfSubset("generator body of any/all introduces fresh symbols", node)
    jj = z3.Int("j!q")
    bj = z3.substitute(body, (j, jj))
    if is_any:
        return [(Sym(z3.Exists([jj], z3.And(jj >= 0, jj < n, bj)), "bool"), st)]
    return [(Sym(z3.ForAll([jj], z3.Implies(z3.And(jj >= 0, jj < n), bj)), "bool"), st)]


@model("any")
def m_any(ip, args, kw, st, node):
    v = args[0]
    if isinstance(v, SymComp):
        return _quant_comp(ip, v, st, node, True)
    if isinstance(v, (PyList, tuple)):
        ts = [ip.truth(x, st) for x in (v.items if isinstance(v, PyList) else v)]
        if all(isinstance(t, bool) for t in ts):
            return [(any(ts), st)]
        return [(Sym(z3.Or(*[z3.BoolVal(t) if isinstance(t, bool) else t for t in ts]), "bool"), st)]
    raise OutOfSubset("any", node)


@model("all")
def m_all(ip, args, kw, st, node):
    v = args[0]
    if isinstance(v, SymComp):
        return _quant_comp(ip, v, st, node, False)
    if isinstance(v, (PyList, tuple)):
        ts = [ip.truth(x, st) for x in (v.items if isinstance(v, PyList) else v)]
        if all(isinstance(t, bool) for t in ts):
            return [(all(ts), st)]
        return [(Sym(z3.And(*[z3.BoolVal(t) if isinstance(t, bool) else t for t in ts]), "bool"), st)]
    raise OutOfSubset("all", node)


# --------------------------------------------------------------------------
# _Schedule (a dict subclass): its dict content is the declared map field 'items'
# --------------------------------------------------------------------------
def _sched_map(ip, selfv, st):
    return ip.read_field(selfv.t, "_Schedule", "_d", st)


@model("_Schedule.__getitem__")
def m_sched_getitem(ip, args, kw, st, node):
    ml = _sched_map(ip, args[0], st)
    return ip.index(ml, args[1], st, node)


@model("_Schedule.__contains__")
def m_sched_contains(ip, selfv, x, st):
    ml = _sched_map(ip, selfv, st)
    return z3.Select(ml.dom(st.heap), ip.coerce(x, "str"))


@model("_Schedule.items")
def m_sched_items(ip, args, kw, st, node):
    return [(IterV("items", [_sched_map(ip, args[0], st), "items"]), st)]


@model("_Schedule.keys")
def m_sched_keys(ip, args, kw, st, node):
    return [(IterV("items", [_sched_map(ip, args[0], st), "keys"]), st)]


@model("_Schedule.values")
def m_sched_values(ip, args, kw, st, node):
    return [(IterV("items", [_sched_map(ip, args[0], st), "values"]), st)]


@model("np.searchsorted")
def m_searchsorted(ip, args, kw, st, node):
    """numpy axiom (side='right' on a sorted 1-d sequence): the insertion index after all elements <= v."""
    a, v = args[0], args[1]
    side = kw.get("side", "left")
    sv = ip.as_seq(a, st)
    j, j2 = z3.Int("j!ss1"), z3.Int("j!ss2")
    # precondition of the axiom: the sequence is sorted (obligation)
    ip.oblige(st, f"np.searchsorted:sorted@{ip.ntag(node)}",
              z3.ForAll([j, j2], z3.Implies(z3.And(0 <= j, j <= j2, j2 < sv.n), z3.Select(sv.arr, j) <= z3.Select(sv.arr, j2))), "safety")
    vt, k = znum(v)
    i = fresh("ss", I)
    if side == "right":
        st.assume(0 <= i, i <= sv.n,
                  z3.ForAll([j], z3.Implies(z3.And(0 <= j, j < i), z3.Select(sv.arr, j) <= vt), patterns=[z3.Select(sv.arr, j)]),
                  z3.ForAll([j], z3.Implies(z3.And(i <= j, j < sv.n), z3.Select(sv.arr, j) > vt), patterns=[z3.Select(sv.arr, j)]))
    else:
        st.assume(0 <= i, i <= sv.n,
                  z3.ForAll([j], z3.Implies(z3.And(0 <= j, j < i), z3.Select(sv.arr, j) < vt), patterns=[z3.Select(sv.arr, j)]),
                  z3.ForAll([j], z3.Implies(z3.And(i <= j, j < sv.n), z3.Select(sv.arr, j) >= vt), patterns=[z3.Select(sv.arr, j)]))
    return [(Sym(i, "int"), st)]


# --------------------------------------------------------------------------
# dict-like pseudo classes
# --------------------------------------------------------------------------
@model("_BasisMap.__getitem__")
def m_bm_getitem(ip, args, kw, st, node):
    ml = ip.read_field(args[0].t, "_BasisMap", "_d", st)
    return ip.index(ml, args[1], st, node)


@model("_BasisMap.__contains__")
def m_bm_contains(ip, selfv, x, st):
    ml = ip.read_field(selfv.t, "_BasisMap", "_d", st)
    return z3.Select(ml.dom(st.heap), ip.coerce(x, "qid"))


from .core import PStr as _PStr
DECL_DOM = z3.Function("DECL_DOM", Ref, z3.ArraySort(_PStr, B))
DECL_MAP = z3.Function("DECL_MAP", Ref, z3.ArraySort(_PStr, Ref))


@model("_DeclMap.__contains__")
def m_dm_contains(ip, selfv, x, st):
    return z3.Select(DECL_DOM(selfv.t), ip.coerce(x, "str"))


@model("_DeclMap.__getitem__")
def m_dm_getitem(ip, args, kw, st, node):
    kt = ip.coerce(args[1], "str")
    out = []
    for side, s2 in ip.branch(z3.Select(DECL_DOM(args[0].t), kt), st, "key"):
        out.append((Sym(z3.Select(DECL_MAP(args[0].t), kt), ("ref", "Channel")), s2) if side else (Exc("KeyError"), s2))
    return out


@model("get_args")
def m_get_args(ip, args, kw, st, node):
    v = args[0]
    if isinstance(v, tuple):
        return [(v, st)]
    raise OutOfSubset("get_args of non-literal", node)


# --------------------------------------------------------------------------
# numpy / pulser.math on sample arrays (A-NUMPY: each model is an assumed contract of the dependency)
# --------------------------------------------------------------------------
ROUND6 = z3.Function("ROUND6", R, R)      # np.round(x, 6)
AVG = z3.Function("AVG", z3.ArraySort(I, R), I, R)
SUM = z3.Function("SUM", z3.ArraySort(I, R), I, R)


def _elementwise(ip, v, st, f, ety="real"):
    sv = ip.as_seq(v, st)
    j = z3.Int("j!ew")
    return SeqV(sv.n, z3.Lambda([j], f(z3.Select(sv.arr, j))), ety)


@model("np.any")
def m_np_any(ip, args, kw, st, node):
    v = args[0]
    if isinstance(v, (SeqV, ListLoc)):
        sv = ip.as_seq(v, st)
        j = z3.Int("j!any")
        el = z3.Select(sv.arr, j)
        cond = el if sv.ety == "bool" else el != 0
        return [(Sym(z3.Exists([j], z3.And(0 <= j, j < sv.n, cond)), "bool"), st)]
    return [(ip.as_bool_val(ip.truth(v, st)), st)]


@model("np.all")
def m_np_all(ip, args, kw, st, node):
    sv = ip.as_seq(args[0], st)
    j = z3.Int("j!all")
    el = z3.Select(sv.arr, j)
    cond = el if sv.ety == "bool" else el != 0
    return [(Sym(z3.ForAll([j], z3.Implies(z3.And(0 <= j, j < sv.n), cond)), "bool"), st)]


@model("np.isfinite")
def m_np_isfinite(ip, args, kw, st, node):
    """A-REAL: sample values are mathematical reals, so every one is finite (nan / inf are outside the encoding: bounded stand-in only)"""
    v = args[0]
    if isinstance(v, (SeqV, ListLoc)):
        return [(_elementwise(ip, v, st, lambda x: z3.BoolVal(True), ety="bool"), st)]
    return [(True, st)]


@model("np.abs")
def m_np_abs(ip, args, kw, st, node):
    v = args[0]
    if isinstance(v, (SeqV, ListLoc)):
        return [(_elementwise(ip, v, st, lambda x: z3.If(x >= 0, x, -x)), st)]
    return m_abs(ip, args, kw, st, node)


def _round(ip, args, kw, st, node):
    v = args[0]
    dec = kw.get("decimals", args[1] if len(args) > 1 else 0)
    if dec != 6:
        raise OutOfSubset("np.round with decimals != 6", node)
    if isinstance(v, (SeqV, ListLoc)):
        return [(_elementwise(ip, v, st, lambda x: ROUND6(x)), st)]
    t, k = _num(ip, v, st, node)
    return [(Sym(ROUND6(to_real(t)), "real"), st)]


MODELS["np.round"] = _round
MODELS["pm.round"] = _round


@model("np.average")
def m_np_average(ip, args, kw, st, node):
    sv = ip.as_seq(args[0], st)
    return [(Sym(AVG(sv.arr, sv.n), "real"), st)]


@model("np.sum")
def m_np_sum(ip, args, kw, st, node):
    sv = ip.as_seq(args[0], st)
    arr = sv.arr
    return [(Sym(SUM(arr, sv.n), "real"), st)]


@model("np.min")
def m_np_min(ip, args, kw, st, node):
    return _minmax(ip, [StarArg(args[0])], kw, st, node, False)


@model("np.max")
def m_np_max(ip, args, kw, st, node):
    return _minmax(ip, [StarArg(args[0])], kw, st, node, True)


@model("<builtin>.as_array")
def m_as_array(ip, args, kw, st, node):
    return [(args[0], st)]


@model("<builtin>.copy")
def m_copy(ip, args, kw, st, node):
    return [(args[0], st)]


@model("super")
def m_super(ip, args, kw, st, node):
    return [(SuperProxy(st.env["self"], ip.cls_ctx), st)]


class SuperProxy:
    def __init__(self, selfv, cls):
        self.selfv, self.cls = selfv, cls


@model("chain")
def m_chain(ip, args, kw, st, node):
    items = []
    for a in args:
        if isinstance(a, (PyList, tuple)):
            items += list(a.items if isinstance(a, PyList) else a)
        else:
            raise OutOfSubset("itertools.chain over a symbolic iterable", node)
    return [(PyList(items), st)]


@model("wraps")
def m_wraps(ip, args, kw, st, node):
    from .core import Closure
    ident = ast_lambda_identity()
    return [(ident, st)]


def ast_lambda_identity():
    import ast as _ast
    from .core import Closure
    lam = _ast.parse("lambda f: f", mode="eval").body
    return Closure(lam, {}, None)


@model("np.ones")
def m_np_ones(ip, args, kw, st, node):
    n, _ = znum(args[0])
    return [(SeqV(n, z3.K(I, z3.RealVal(1)), "real"), st)]


@model("np.zeros")
def m_np_zeros(ip, args, kw, st, node):
    n, _ = znum(args[0])
    return [(SeqV(n, z3.K(I, z3.RealVal(0)), "real"), st)]


@model("np.arange")
def m_np_arange(ip, args, kw, st, node):
    n, _ = znum(args[0])
    j = z3.Int("j!ar")
    return [(SeqV(n, z3.Lambda([j], z3.ToReal(j)), "real"), st)]


def _clip(ip, args, kw, st, node):
    x, lo, hi = args
    if isinstance(x, (SeqV, ListLoc)):
        tl, _ = _num(ip, lo, st, node)
        th, _ = _num(ip, hi, st, node)
        tl, th = to_real(tl), to_real(th)
        return [(_elementwise(ip, x, st, lambda v: z3.If(z3.If(v >= tl, v, tl) <= th, z3.If(v >= tl, v, tl), th)), st)]
    return m_clip(ip, args, kw, st, node)


MODELS["np.clip"] = _clip
MODELS["pm.clip"] = _clip


@model("sorted")
def m_sorted(ip, args, kw, st, node):
    v = args[0]
    items = list(v.items if isinstance(v, PyList) else v)
    if len(items) == 2:
        (a, ka), (b, kb) = _num(ip, items[0], st, node), _num(ip, items[1], st, node)
        kind = "real" if "real" in (ka, kb) else "int"
        if kind == "real":
            a, b = to_real(a), to_real(b)
        return [(PyList([Sym(z3.If(a <= b, a, b), kind), Sym(z3.If(a <= b, b, a), kind)]), st)]
    if all(isinstance(x, (int, float)) for x in items):
        return [(PyList(sorted(items)), st)]
    raise OutOfSubset("sorted of a symbolic list longer than 2", node)


@model("map")
def m_map(ip, args, kw, st, node):
    f, xs = args
    items = list(xs.items if isinstance(xs, PyList) else xs)
    out, cur = [], st
    for x in items:
        r = ip.call(f, [x], {}, cur, node)
        if len(r) != 1 or isinstance(r[0][0], Exc):
            raise OutOfSubset("map with a branching function", node)
        out.append(r[0][0])
        cur = r[0][1]
    return [(PyList(out), cur)]


@model("object.__setattr__")
def m_obj_setattr(ip, args, kw, st, node):
    obj, name, val = args
    if isinstance(obj, Sym) and is_ref_ty(obj.ty) and isinstance(name, str):
        ip.write_field(obj.t, obj.ty[1], name, val, st, node)
        return [(None, st)]
    raise OutOfSubset("object.__setattr__", node)


class PySlice:
    def __init__(self, start, stop, step):
        self.start, self.stop, self.step = start, stop, step


@model("slice")
def m_slice(ip, args, kw, st, node):
    a = list(args) + [None] * (3 - len(args))
    if len(args) == 1:
        a = [None, args[0], None]
    return [(PySlice(a[0], a[1], a[2]), st)]


@model("pm.pad")
def m_pm_pad(ip, args, kw, st, node):
    """pulser.math.pad(a, (before, after), mode='constant'|'edge', constant_values=c)  (A-NUMPY)"""
    a, width = args[0], args[1]
    mode = kw.get("mode", "constant")
    cv = kw.get("constant_values", 0.0)
    sv = ip.as_seq(a, st)
    if isinstance(width, tuple):
        before, after = width
    else:
        before = after = width
    bt, _ = znum(before)
    at, _ = znum(after)
    j = z3.Int("j!pad")
    if isinstance(mode, str):
        modes = [(True, mode)]
    else:
        raise OutOfSubset("pm.pad with a symbolic mode", node)
    if mode == "constant":
        ct, _ = znum(cv)
        lo = hi = to_real(ct)
    elif mode == "edge":
        lo, hi = z3.Select(sv.arr, 0), z3.Select(sv.arr, sv.n - 1)
    else:
        raise OutOfSubset(f"pm.pad mode {mode}", node)
    arr = z3.Lambda([j], z3.If(j < bt, lo, z3.If(j < bt + sv.n, z3.Select(sv.arr, j - bt), hi)))
    return [(SeqV(sv.n + bt + at, arr, "real"), st)]


@model("replace")
def m_replace(ip, args, kw, st, node):
    """dataclasses.replace on a declared shape: a new object with the same class and fields, except the given ones.
    (The dataclass __post_init__ is not re-executed: its assertions are the class invariant, listed as an assumption.)"""
    obj = args[0]
    if not (isinstance(obj, Sym) and is_ref_ty(obj.ty)):
        raise OutOfSubset("replace on a non-object", node)
    cls = obj.ty[1]
    sh = SHAPES[cls]
    from .core import dyn_class
    r = fresh("new" + cls, Ref)
    st.assume(dyn_class(r) == dyn_class(obj.t))
    for f, (ty, mut) in sh.fields.items():
        if f.startswith("$") or f in getattr(sh, "derived", ()):
            continue       # derived fields are recomputed by __post_init__ (see the class's replace hook)
        val = kw[f] if f in kw else ip.read_field(obj.t, cls, f, st)
        if mut:
            ip.write_field(r, cls, f, val, st, node)
        else:
            if isinstance(val, Opaque):
                continue
            ip.define_field(r, cls, f, ty, val, st)
    hook = MODELS.get(f"replace:{cls}")
    if hook:
        hook(ip, r, st)
    return [(Sym(r, ("ref", cls)), st)]


@model("np.lexsort")
def m_lexsort(ip, args, kw, st, node):
    """np.lexsort(keys): the stable permutation that sorts by the LAST key first (A-NUMPY); abstracted as a function of the key sequence"""
    sv = ip.as_seq(args[0], st)
    f = z3.Function("NP_LEXSORT", z3.ArraySort(I, Ref), I, Ref)
    return [(Sym(f(sv.arr, sv.n), ("ref", "Obj")), st)]


@model("np.array")
def m_np_array(ip, args, kw, st, node):
    """np.array(seq of reals): abstracted as a function of the element sequence and its length (A-NUMPY)"""
    if kw or len(args) != 1:
        raise OutOfSubset("np.array with options", node)
    sv = ip.as_seq(args[0], st)
    f = z3.Function("NP_ARRAY", z3.ArraySort(I, R), I, Ref)
    return [(Sym(f(sv.arr, sv.n), ("ref", "Obj")), st)]
