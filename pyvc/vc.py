"""Function-level VC generation and discharge."""
from __future__ import annotations

import time

import z3

from .core import (B, HEAP_SORTS, I, Ref, SHAPES, Heap, OptV, OutOfSubset, Sym, State, dyn_class,
                   fresh, is_ref_ty, isinstance_term, sort_of, str_axioms)
from .contracts import REGISTRY, Al, Ctx, Q
from .interp import Exc, Interp, Obligation
from .expr import ExprMixin
from .stmt import NEXT, RAISE, RET, StmtMixin
from .calls import CallMixin


class Engine(CallMixin, StmtMixin, ExprMixin, Interp):
    cls_ctx = None
    fn_args = None


def sym_arg(name, ty):
    if isinstance(ty, tuple) and ty[0] == "opt":
        return OptV(z3.Const(name + "?", B), sym_arg(name, ty[1]))
    if isinstance(ty, tuple) and ty[0] == "list":
        from .core import SeqV
        return SeqV(z3.Const(name + ".len", I), z3.Const(name + ".arr", z3.ArraySort(I, sort_of(ty[1]))), ty[1])
    if isinstance(ty, tuple) and ty[0] == "const":
        return ty[1]
    if ty == "opaque":
        from .core import Opaque
        return Opaque(name)
    if ty == "slice":
        from .models import PySlice
        return PySlice(sym_arg(name + ".start", ("opt", "int")), sym_arg(name + ".stop", ("opt", "int")), sym_arg(name + ".step", ("opt", "int")))
    return Sym(z3.Const(name, sort_of(ty)), ty)


def _setup_and_run(src, con, models, axioms=(), prefix=None, prune=True):
    """Symbolically execute the real body of con's function from a symbolic entry state that satisfies con.requires.
    -> (early_result_dict | None, eng, args, entry_heap, c0, results, meta, sink)"""
    sink = []
    fd = src.find(con.file, con.qual)
    if fd is None:
        return dict(obligations=[], paths=0, error=f"function {con.qual} not found in {con.file}", meta={}), None, None, None, None, None, None, None
    eng = Engine(src, con.file, models, sink, list(axioms), prune)
    eng.prefix = prefix or con.qual
    eng.cur_fn_name = con.qual
    eng.index_function(fd)
    eng.cur_contract = con
    eng.loop_counter = [0]
    eng.cls_ctx = con.qual.split(".")[0] if "." in con.qual else None
    st = State(heap=Heap(tag="H0"))
    args = {}
    for name, ty in con.params.items():
        args[name] = sym_arg(name, ty)
        v = args[name]
        if isinstance(v, Sym) and is_ref_ty(v.ty) and v.ty[1] in SHAPES:
            st.assume(isinstance_term(v.t, v.ty[1]))
    # defaults of parameters not listed in params
    a = fd.args
    allnames = [x.arg for x in a.posonlyargs + a.args + a.kwonlyargs]
    for n in allnames:
        if n not in args and n not in con.closure:
            raise OutOfSubset(f"contract {con.qual} does not give a type for parameter {n}")
    st.env = dict(args)
    for n, ty in con.closure.items():
        if isinstance(ty, tuple) and ty[0] == "nested":
            from .core import Closure
            nfd = src.find(con.file, ty[1])
            clo = Closure(nfd, st.env, None)
            clo.file, clo.dynamic_env = con.file, True
            st.env[n] = clo
        else:
            st.env[n] = args[n] = sym_arg(n, ty)
            v = args[n]
            if isinstance(v, Sym) and is_ref_ty(v.ty) and v.ty[1] in SHAPES:
                st.assume(isinstance_term(v.t, v.ty[1]))
    eng.fn_args = args
    entry_heap = st.heap.copy()
    for k in HEAP_SORTS:
        entry_heap.get(k)
        st.heap.get(k)
    st.heap = Heap(entry_heap.arrays, "H0")
    eng.entry_heap = entry_heap
    c0 = Ctx(args, entry_heap, entry_heap, st=st)
    eng.assume_clauses(st, con.requires(c0))
    for d in con.spec_defs(c0):
        st.assume(d)
    eng.assume_clauses(st, [("lemma:" + n, cl) for n, cl in con.lemmas(c0)])
    meta = {"requires": [str(eng.clause_formula(cl))[:200] for _, cl in con.requires(c0)]}
    # vacuity guard: requires satisfiable
    try:
        if eng.has_seq_decorators(fd):
            # the decorated method: the real wrappers of sequence/_decorators.py around the real body
            from .core import Closure
            inner = Closure(fd, {}, None)
            inner.file = con.file
            inner.fname = fd.name
            deco = eng.decorated(fd, inner)
            a = fd.args
            pos = [args[x.arg] for x in a.posonlyargs + a.args]
            kws = {x.arg: args[x.arg] for x in a.kwonlyargs}
            if a.vararg is not None:
                from .calls import StarArg
                pos = pos + [StarArg(args[a.vararg.arg])]
            results = []
            for v, s1 in eng.call(deco, pos, kws, st, fd):
                results.append((RAISE, v, s1) if isinstance(v, Exc) else (RET, v, s1))
        else:
            results = eng.exec_block(fd.body, st)
    except OutOfSubset as ex:
        return dict(obligations=[], paths=0, error=str(ex), meta=meta), None, None, None, None, None, None, None
    return None, eng, args, entry_heap, c0, results, meta, sink


def verify_function(src, con, models, axioms=(), prefix=None, prune=True):
    """Symbolically execute the real body of con's function against con.

    Returns dict(obligations=[Obligation], paths=int, error=None|str, meta)
    """
    early, eng, args, entry_heap, c0, results, meta, sink = _setup_and_run(src, con, models, axioms, prefix, prune)
    if early is not None:
        return early
    npaths = 0
    raise_conds = {exc: (f[1] if isinstance(f, tuple) else f)(c0) for exc, f in con.raises.items()}
    only_if = {exc for exc, f in con.raises.items() if isinstance(f, tuple)}
    for kind, pay, s1 in results:
        npaths += 1
        if kind == NEXT:
            kind, pay = RET, None
        if kind == RET:
            c1 = Ctx(args, entry_heap, s1.heap, res=pay, st=s1)
            try:
                ens = getattr(con, '_verify_ensures', con.ensures)(c1)
            except OutOfSubset as ex:
                return dict(obligations=[], paths=0, error=str(ex), meta=meta)
            for name, cl in ens:
                eng.check_clause(s1, f"ensures.{name}", cl, "post")
                if name.startswith("assert:"):
                    # proof step (like a Dafny assert): checked above, then available to the later clauses
                    s1.assume(eng.clause_formula(cl), name=name)
            if con.raises_iff:
                for exc, cond in raise_conds.items():
                    if exc in only_if:
                        continue
                    eng.oblige(s1, f"raises.{exc}.only-if-not-returning", z3.Not(cond) if not isinstance(cond, bool) else (not cond), "raises")
            frame_obligations(eng, con, c0, s1, entry_heap, normal=True)
        elif kind == RAISE:
            exc = pay.name
            from .interp import exc_isa
            allowed = [cond for e2, cond in raise_conds.items() if exc_isa(exc, e2)]
            if exc in con.may_raise or any(exc_isa(exc, m) for m in con.may_raise):
                pass
            elif allowed:
                eng.oblige(s1, f"raises.{exc}.condition", allowed[0], "raises")
            else:
                eng.oblige(s1, f"raises.{exc}.undeclared", z3.BoolVal(False), "raises")
            if con.exc_safe:
                frame_obligations(eng, con, c0, s1, entry_heap, normal=False)
            else:
                frame_obligations(eng, con, c0, s1, entry_heap, normal=True)
    eng.n_paths = npaths
    return dict(obligations=sink, paths=npaths, error=None, meta=meta)


def frame_obligations(eng, con, c0, s1, entry_heap, normal):
    """Every heap array differs from the entry heap only where `modifies` allows.
    normal=False: exceptional path of an exc_safe function: nothing at all may differ."""
    allowed = {}
    if normal:
        for key, ownersf in con.modifies.items():
            for k in HEAP_SORTS:
                if k == key or k.startswith(key + ".") or k == key + "?":
                    allowed[k] = ownersf(c0) if ownersf else None
    def same(k, new, old, r):
        """list contents are compared on [0, len) only (cells beyond the length are not part of the list)."""
        if k.endswith(".at") and (k[:-3] + ".len") in HEAP_SORTS:
            i = fresh("i", I)
            n_old = z3.Select(entry_heap.get(k[:-3] + ".len"), r)
            return z3.Implies(z3.And(0 <= i, i < n_old), z3.Select(z3.Select(new, r), i) == z3.Select(z3.Select(old, r), i))
        return z3.Select(new, r) == z3.Select(old, r)

    for k in HEAP_SORTS:
        if k == "$alloc":
            continue
        new, old = s1.heap.get(k), entry_heap.get(k)
        if new.eq(old):
            continue
        label = "frame" if normal else "exc_safe"
        if k in allowed:
            owners = allowed[k]
            if owners is None:
                continue
            r = fresh("r", Ref)
            outside = z3.Not(owners(r)) if callable(owners) else z3.And(*[r != o for o in owners])
            eng.oblige(s1, f"{label}.{k}", z3.Implies(z3.And(z3.Select(entry_heap.get("$alloc"), r), outside), same(k, new, old, r)), "frame")
        else:
            r = fresh("r", Ref)
            eng.oblige(s1, f"{label}.{k}", z3.Implies(z3.Select(entry_heap.get("$alloc"), r), same(k, new, old, r)), "frame")


# --------------------------------------------------------------------------
# discharge
# --------------------------------------------------------------------------
def _check(hyps, goal, timeout_ms, seed=0):
    s = z3.Solver()
    s.set("timeout", timeout_ms)
    if seed:
        s.set("random_seed", seed)
    for a in str_axioms():
        s.add(a)
    for h in hyps:
        s.add(h)
    s.add(z3.Not(goal))
    t0 = time.time()
    r = s.check()
    return r, time.time() - t0, s


def has_quant(t, _seen=None):
    """does the formula contain a quantifier anywhere?"""
    todo, seen = [t], set()
    while todo:
        x = todo.pop()
        if x.get_id() in seen:
            continue
        seen.add(x.get_id())
        if z3.is_quantifier(x):
            return True
        todo.extend(x.children())
    return False


def _keywords(name):
    """clause keyword of an obligation name: 'f/ensures.INV.clock-aligned@split0[...]' -> 'clock-aligned'"""
    base = name.split("[")[0].split("/")[-1]
    base = base.split("@")[0]
    return base.split(".")[-1]


def discharge(ob, timeout_ms=10000, want_model=True):
    """-> dict(verdict 'unsat'|'sat'|'unknown', time_s, model).  Ladder on unknown (dropping hypotheses is
    always sound; only a 'sat' of the *full* query is a counter-model)."""
    names = ob.meta.get("hyp_names") or [None] * len(ob.hyps)
    kw = _keywords(ob.name)
    qf = [h for h in ob.hyps if not has_quant(h)]
    sliced = []
    for h, n in zip(ob.hyps, names):
        al = ("clock" in ob.name or "aligned" in ob.name)
        if not z3.is_quantifier(h) or n is None or kw in n or "bridge" in n or "append-only" in n or n in ("valid_channel", "spec-def") \
                or (al and ("clock" in n or "aligned" in n)) or any(x in n for x in (ob.meta.get("slice_hints") or ())):
            sliced.append(h)
    t = timeout_ms
    ladder = [("full", ob.hyps, min(3000, t), 0), ("quantifier-free-hyps", qf, min(6000, t), 0),
              ("sliced", sliced, min(6000, t) if not ob.meta.get("slice_hints") else max(30000, t), 0),
              ("full-long", ob.hyps, 4 * t, 0)]
    if ob.meta.get("slice_hints"):
        # hinted slices are quantifier-heavy and sensitive to the solver's random choices: two more attempts with other seeds (still sound)
        ladder[3:3] = [("sliced-seed11", sliced, max(30000, t), 11), ("sliced-seed23", sliced, max(30000, t), 23)]
    if t > 10000:
        ladder.append(("seed7", ob.hyps, 2 * t, 7))
    tried, total = [], 0.0
    r, s = z3.unknown, None
    full_sat = None
    for label, hyps, to, seed in ladder:
        if label in ("quantifier-free-hyps", "sliced", "sliced-seed11", "sliced-seed23") and len(hyps) == len(ob.hyps):
            continue
        r1, dt, s1 = _check(hyps, ob.goal, to, seed)
        tried.append(label)
        total += dt
        if r1 == z3.unsat:
            r, s = r1, s1
            break
        if r1 == z3.sat and label in ("full", "full-long", "seed7"):
            r, s = r1, s1
            break
        if s is None or label.startswith("full"):
            s = s1
    if r == z3.unknown and qf:
        # model search without the quantified hypotheses: a model found here is only a *candidate* counterexample
        # (hypotheses were dropped); it is reported as 'sat?' and has to be confirmed by a replay on the real code
        r2, dt2, s2 = _check(qf, ob.goal, min(5000, timeout_ms))
        tried.append("model-search")
        total += dt2
        if r2 == z3.sat:
            out = {"verdict": "sat?", "time_s": round(total, 4), "tried": tried, "solver": s2}
            if want_model:
                m = s2.model()
                out["model"] = {str(d): str(m[d]) for d in m.decls() if d.arity() == 0}
                out["model_obj"] = m
            return out
    out = {"verdict": str(r), "time_s": round(total, 4), "tried": tried}
    if r == z3.sat and want_model:
        m = s.model()
        out["model"] = {str(d): str(m[d]) for d in m.decls() if d.arity() == 0}
        out["model_obj"] = m
    if r == z3.unknown:
        out["reason"] = s.reason_unknown() if s is not None else ""
    out["solver"] = s
    return out


def verify_lemma(name, axioms=()):
    """-> list of Obligation for a registered lemma (pure SMT; no code)."""
    from .contracts import LEMMAS
    build, text = LEMMAS[name]
    hyps, concl, skf = build()
    eng = Engine(None, None, {}, [], list(axioms), False)
    eng.prefix = f"lemma/{name}"
    st = State()
    eng.assume_clauses(st, hyps)
    vs = [fresh("k", so) for so in concl.sorts]
    prem, c = concl.body(*vs)
    for f in skf(*vs):
        st.assume(f, name="skolem-def")
    st.assume(prem)
    eng.oblige(st, "statement", c, "lemma")
    return eng.sink
