"""Parallel developer runner:  python3-vt -m pyvc.pdev [-k JOBS] <qualname> [...]  (all obligations, no property filter)"""
import json
import subprocess
import sys
import time


def main(argv):
    k = 8
    if "-k" in argv:
        k = int(argv[argv.index("-k") + 1])
        argv = [a for i, a in enumerate(argv) if a != "-k" and (i == 0 or argv[i - 1] != "-k")]
    quals = [a for a in argv if not a.startswith("-")]
    t0 = time.time()
    for q in quals:
        import tempfile
        with tempfile.TemporaryFile("w+") as fo, tempfile.TemporaryFile("w+") as fe:
            subprocess.run([sys.executable, "-m", "pyvc.driver", "--funcworker", q, "DEV", "quick", str(k)], stdout=fo, stderr=fe, text=True)
            fo.seek(0); fe.seek(0)
            out, err = fo.read(), fe.read()

        class P:
            stdout, stderr = out, err
        p = P
        lines = [ln for ln in p.stdout.splitlines() if ln.startswith("{")]
        if not lines:
            print(q, "NO RESULT", p.stderr[-1500:])
            continue
        r = json.loads(lines[-1])
        obs = r["results"]
        bad = [o for o in obs if o["verdict"] != "unsat"]
        print(f"{q}: obligations={len(obs)} not-discharged={len(bad)} paths={r.get('paths')} gen={r.get('gen_s')}s wall={r.get('wall_s')}s")
        if r.get("error"):
            print("   ERROR", r["error"][:1200])
        for o in bad:
            print(f"   {o['verdict']:8s} {o['time_s']:.1f}s {o['name'][:170]}")
    print(f"wall {time.time()-t0:.1f}s")


if __name__ == "__main__":
    main(sys.argv[1:])
