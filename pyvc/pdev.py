"""Parallel developer runner:  python3-vt -m pyvc.pdev [-k SHARDS] <qualname> [...]  (all obligations, no property filter)"""
import multiprocessing as mp
import sys
import time

from . import driver


def _w(task):
    qual, shard, n = task
    import re
    driver.obligations_for = lambda prop, con, name, kind: True
    return driver._work((qual, shard, n, "DEV", 10000, "quick"))


def main(argv):
    k = 8
    if "-k" in argv:
        k = int(argv[argv.index("-k") + 1])
        argv = [a for i, a in enumerate(argv) if a != "-k" and (i == 0 or argv[i - 1] != "-k")]
    quals = [a for a in argv if not a.startswith("-")]
    t0 = time.time()
    tasks = [(q, s, k) for q in quals for s in range(k)]
    with mp.get_context("fork").Pool(min(16, len(tasks))) as pool:
        res = pool.map(_w, tasks, chunksize=1)
    for q in quals:
        rs = [r for r in res if r["qual"] == q]
        errs = [r["error"] for r in rs if r["error"]]
        obs = [o for r in rs for o in r["results"]]
        bad = [o for o in obs if o["verdict"] != "unsat"]
        print(f"{q}: obligations={len(obs)} not-discharged={len(bad)} paths={rs[0].get('paths')} gen={rs[0].get('gen_s')}s errors={len(errs)}")
        for e in errs[:1]:
            print("   ERROR", e[:600])
        for o in bad:
            print(f"   {o['verdict']:8s} {o['time_s']:.1f}s {o['name'][:170]}")
    print(f"wall {time.time()-t0:.1f}s")


if __name__ == "__main__":
    main(sys.argv[1:])
