"""Calls: modular contract application, inlining, constructors, builtins."""
from __future__ import annotations

import ast

import z3

from .core import (B, HEAP_SORTS, I, R, SHAPES, BoundMethod, Closure, FuncRef, ListLoc, Opaque,
                   OptV, OutOfSubset, PyList, Qid, Ref, SeqV, SlotTy, State, Sym, dyn_class,
                   field_owner, fresh, is_ref_ty, isinstance_term, sort_of, str_const, to_real,
                   uf, znum)
from .contracts import REGISTRY, Al, Ctx, Q
from .interp import Exc, MapLoc
from .expr import PyDict, SliceV, SymComp
from .stmt import NEXT, RAISE, RET, IterV, ml_items_domain
from .source import dec_name

MAX_INLINE_DEPTH = 12


class CallMixin:
    # ------------------------------------------------------------ Call node
    def ev_Call(self, e, st):
        def f(fn, s):
            # positional (with *star support for concrete / max-min models)
            pos_exprs, star = [], None
            for a in e.args:
                if isinstance(a, ast.Starred):
                    star = a
                else:
                    pos_exprs.append(a)
            kw_names = [k.arg for k in e.keywords]
            exprs = pos_exprs + ([star.value] if star is not None else []) + [k.value for k in e.keywords]

            def g(vs, s2):
                npos = len(pos_exprs)
                args = vs[:npos]
                rest = vs[npos:]
                if star is not None:
                    sv = rest[0]
                    rest = rest[1:]
                    if isinstance(sv, (PyList, tuple)) and not isinstance(sv, PyDict):
                        # positional order: starred placed last among positionals (only supported layout)
                        if e.args and e.args[-1] is not star:
                            raise OutOfSubset("starred argument not last", e)
                        args = args + list(sv.items if isinstance(sv, PyList) else sv)
                    else:
                        args = args + [StarArg(sv)]
                kwargs = {}
                for kn, kv in zip(kw_names, rest):
                    if kn is None:
                        if not isinstance(kv, PyDict):
                            raise OutOfSubset("** of a non-literal mapping", e)
                        kwargs.update(kv.d)
                    else:
                        kwargs[kn] = kv
                return self.call(fn, args, kwargs, s2, e)
            return self.bind(self.eval_list(exprs, s), g)
        return self.bind(self.eval(e.func, st), f)

    # ------------------------------------------------------------ dispatch
    def call(self, fn, args, kwargs, st, node=None):
        if isinstance(fn, BoundMethod):
            if fn.cls == "<builtin>":
                return self.call_builtin_method(fn.selfv, fn.name, args, kwargs, st, node)
            return self.call_method(fn.selfv, fn.cls, fn.name, args, kwargs, st, node)
        if isinstance(fn, Closure):
            return self.call_closure(fn, args, kwargs, st, node)
        if isinstance(fn, FuncRef):
            q = fn.qual
            if q in self.models:
                return self.models[q](self, args, kwargs, st, node)
            if fn.kind == "class":
                return self.construct(q, args, kwargs, st, node)
            if fn.kind == "classattr":
                cls, name = q.split(".", 1)
                m = self.src.find_method(cls, name)
                if m is None:
                    raise OutOfSubset(f"unknown class attribute {q}", node)
                rel, owner, fd = m
                decs = [dec_name(d) for d in fd.decorator_list]
                if "staticmethod" in decs:
                    return self.call_function(rel, f"{owner}.{name}", fd, None, args, kwargs, st, node, owner_cls=owner)
                if "classmethod" in decs:
                    return self.call_function(rel, f"{owner}.{name}", fd, FuncRef(cls, "class"), args, kwargs, st, node, owner_cls=owner)
                # unbound method: first arg is self
                return self.call_method(args[0], cls, name, args[1:], kwargs, st, node)
            if fn.kind == "func":
                fd = self.src.find(self.file, q)
                if fd is None:
                    raise OutOfSubset(f"unknown function {q}", node)
                return self.call_function(self.file, q, fd, None, args, kwargs, st, node)
            if fn.kind == "exc":
                return [(Opaque("exception-instance"), st)]
            raise OutOfSubset(f"call of {fn!r}", node)
        raise OutOfSubset(f"call of {fn!r}", node)

    def call_method(self, selfv, cls, name, args, kwargs, st, node=None):
        setter = name.endswith("@setter")
        base = name[:-7] if setter else name
        for c in self.src.mro(cls):
            if f"{c}.{name}" in self.models:
                return self.models[f"{c}.{name}"](self, [selfv] + list(args), kwargs, st, node)
        m = self.src.find_method(cls, base)
        if m is None:
            raise OutOfSubset(f"method {cls}.{name} not found", node)
        rel, owner, fd = m
        if setter:
            fd = self.src.find(rel, f"{owner}.{base}@setter")
        decs = [dec_name(d) for d in fd.decorator_list]
        if "staticmethod" in decs:
            selfv = None
        elif "classmethod" in decs:
            selfv = FuncRef(cls, "class")
        # virtual dispatch: if a declared subclass overrides, a contract must be registered on the base
        return self.call_function(rel, f"{owner}.{name}", fd, selfv, args, kwargs, st, node, owner_cls=owner, static_cls=cls)

    def call_function(self, rel, qual, fd, selfv, args, kwargs, st, node, owner_cls=None, static_cls=None):
        con = REGISTRY.get(qual)
        if con is None and static_cls and static_cls != owner_cls:
            con = REGISTRY.get(f"{static_cls}.{qual.split('.', 1)[1]}")
        bound = self.bind_args(fd, selfv, args, kwargs, st, node, rel)
        if isinstance(bound, Exc):
            return [(bound, st)]
        if con is None:
            raise OutOfSubset(f"call to {qual} which has neither contract nor inline marker", node)
        if con.inline:
            return self.inline_call(rel, qual, fd, bound, st, node, con, owner_cls)
        return self.apply_contract(con, bound, st, node)

    def bind_args(self, fd, selfv, args, kwargs, st, node, rel):
        a = fd.args
        names = [x.arg for x in a.posonlyargs + a.args]
        bound = {}
        pos = list(args)
        if selfv is not None:
            pos = [selfv] + pos
        if len(pos) > len(names):
            if a.vararg is None:
                return Exc("TypeError", "too many positional")
            extra = pos[len(names):]
            if len(extra) == 1 and isinstance(extra[0], StarArg):
                bound[a.vararg.arg] = extra[0].v      # *collection forwarded as the whole var-positional tuple
            elif any(isinstance(x, StarArg) for x in extra):
                raise OutOfSubset("mixed starred and plain var-positional arguments", node)
            else:
                bound[a.vararg.arg] = tuple(extra)
            pos = pos[: len(names)]
        elif a.vararg is not None:
            bound[a.vararg.arg] = ()
        for n, v in zip(names, pos):
            bound[n] = v
        kwonly = [x.arg for x in a.kwonlyargs]
        for k, v in kwargs.items():
            if k in bound:
                return Exc("TypeError", "duplicate arg")
            if k in names or k in kwonly:
                bound[k] = v
            elif a.kwarg is not None:
                bound.setdefault(a.kwarg.arg, PyDict({})).d[k] = v
            else:
                return Exc("TypeError", f"unexpected keyword {k}")
        if a.kwarg is not None:
            bound.setdefault(a.kwarg.arg, PyDict({}))
        # defaults
        defaults = a.defaults
        for n, d in zip(names[len(names) - len(defaults):], defaults):
            if n not in bound:
                bound[n] = self.const_default(d, rel)
        for n, d in zip(kwonly, a.kw_defaults):
            if n not in bound:
                if d is None:
                    return Exc("TypeError", f"missing kw-only {n}")
                bound[n] = self.const_default(d, rel)
        for n in names:
            if n not in bound:
                return Exc("TypeError", f"missing argument {n}")
        return bound

    def const_default(self, d, rel):
        try:
            return ast.literal_eval(d)
        except Exception:
            pass
        if isinstance(d, ast.Tuple) and not d.elts:
            return ()
        saved = self.file
        self.file = rel
        try:
            res = self.eval(d, State())
        finally:
            self.file = saved
        if len(res) == 1 and not isinstance(res[0][0], Exc):
            return res[0][0]
        raise OutOfSubset("non-constant default argument", d)

    # ------------------------------------------------------------ decorators (DESIGN 2.5)
    SEQ_DECORATORS = ("block_if_measured", "screen", "store", "mark_non_empty", "verify_parametrization")
    DEC_FILE = "pulser-core/pulser/sequence/_decorators.py"

    def decorated(self, fd, inner):
        """Wrap `inner` (a callable Value) by the real wrappers of fd's decorators, innermost first."""
        cur = inner
        for d in reversed(fd.decorator_list):
            name = dec_name(d).split(".")[-1]
            if name in self.SEQ_DECORATORS:
                dfd = self.src.find(self.DEC_FILE, name)
                wfd = [n for n in dfd.body if isinstance(n, ast.FunctionDef) and n.name == "wrapper"][0]
                self.index_function(dfd)
                w = Closure(wfd, {"func": cur}, None)
                w.file = self.DEC_FILE
                w.fname = getattr(cur, "fname", fd.name)
                cur = self.decorated(wfd, w) if any(dec_name(x).split(".")[-1] in self.SEQ_DECORATORS for x in wfd.decorator_list) else w
            elif name in ("wraps", "property", "cached_property", "staticmethod", "classmethod", "abstractmethod", "overload", "setter", "lru_cache", "parametrize"):
                continue
            else:
                raise OutOfSubset(f"unknown decorator {dec_name(d)}", fd)
        return cur

    def has_seq_decorators(self, fd):
        return any(dec_name(d).split(".")[-1] in self.SEQ_DECORATORS for d in fd.decorator_list)

    # ------------------------------------------------------------ inlining
    def inline_call(self, rel, qual, fd, bound, st, node, con, owner_cls):
        if self.call_depth > MAX_INLINE_DEPTH:
            raise OutOfSubset(f"inline depth exceeded at {qual}", node)
        self.index_function(fd)
        callee = st.copy()
        callee.env = dict(bound)
        saved = (self.file, self.cur_contract, self.loop_counter, self.cls_ctx, getattr(self, "cur_fn_name", ""))
        self.file, self.cur_contract, self.loop_counter, self.cls_ctx = rel, con, [0], owner_cls
        self.cur_fn_name = qual
        self.call_depth += 1
        try:
            callee.tags.append(qual.split(".")[-1])
            results = self.exec_block(fd.body, callee)
        finally:
            self.call_depth -= 1
            self.file, self.cur_contract, self.loop_counter, self.cls_ctx, self.cur_fn_name = saved
        out = []
        for kind, pay, s1 in results:
            s1.env = dict(st.env)  # restore caller frame (heap, pc, defs carry over)
            if s1.tags and qual.split(".")[-1] in s1.tags:
                pass
            if kind == RAISE:
                out.append((pay, s1))
            elif kind == RET:
                out.append((pay, s1))
            elif kind == NEXT:
                out.append((None, s1))
            else:
                raise OutOfSubset("break/continue escaping function", node)
        return out

    def call_closure(self, clo, args, kwargs, st, node):
        fd = clo.fdef
        cfile = getattr(clo, "file", None)
        if cfile is not None and cfile != self.file:
            saved_file = self.file
            self.file = cfile
            try:
                return self.call_closure_in(clo, args, kwargs, st, node)
            finally:
                self.file = saved_file
        return self.call_closure_in(clo, args, kwargs, st, node)

    def call_closure_in(self, clo, args, kwargs, st, node):
        fd = clo.fdef
        if isinstance(fd, ast.Lambda):
            bound = self.bind_args(fd, None, args, kwargs, st, node, self.file)
            callee = st.copy()
            callee.env = dict(clo.env)
            callee.env.update(bound)
            out = []
            for v, s1 in self.eval(fd.body, callee):
                s1.env = dict(st.env)
                out.append((v, s1))
            return out
        bound = self.bind_args(fd, None, args, kwargs, st, node, self.file)
        if isinstance(bound, Exc):
            return [(bound, st)]
        callee = st.copy()
        callee.env = dict(clo.env)
        if getattr(clo, "dynamic_env", False):
            callee.env.update(st.env)      # nested defs are only called from their defining frame: see its current bindings
        callee.env.update(bound)
        saved = self.loop_counter
        self.loop_counter = [1000]
        self.call_depth += 1
        try:
            results = self.exec_block(fd.body, callee)
        finally:
            self.call_depth -= 1
            self.loop_counter = saved
        out = []
        for kind, pay, s1 in results:
            s1.env = dict(st.env)
            out.append((pay if kind in (RAISE, RET) else None, s1))
        return out

    # ------------------------------------------------------------ contracts at call sites
    def coerce_args(self, con, bound, st, node):
        out = dict(bound)
        for n, ty in con.params.items():
            v = out.get(n)
            if isinstance(v, SlotTy) and ty == ("ref", "Pulse"):
                self.oblige(st, f"safe:slot-type-is-pulse@{self.ntag(node)}", v.kind == 2, "safety")
                out[n] = Sym(v.pulse, ("ref", "Pulse"))
            elif ty == "real" and isinstance(v, Sym) and v.ty == "int":
                out[n] = Sym(z3.ToReal(v.t), "real")
            elif isinstance(v, OptV) and not (isinstance(ty, tuple) and ty[0] == "opt") and ty != "opaque":
                out[n] = self.unopt(v, st, node)
            elif isinstance(ty, tuple) and ty[0] == "opt" and not isinstance(v, OptV) and n in out:
                if v is None:
                    out[n] = OptV(z3.BoolVal(True), self.fresh_value(ty[1], n))
                else:
                    inner = v
                    if isinstance(v, str):
                        inner = Sym(str_const(v), "str")
                    out[n] = OptV(z3.BoolVal(False), inner)
            elif isinstance(ty, tuple) and ty[0] == "list" and isinstance(v, (PyList, tuple)):
                out[n] = self.as_seq(v, st, ty[1])
        return out

    def apply_contract(self, con, bound, st, node):
        bound = self.coerce_args(con, bound, st, node)
        w = getattr(self, "watch", None)
        if w is not None and con.qual in w:
            w[con.qual].append((dict(bound), st.copy()))
            if con.qual in getattr(self, "stop_at", ()):
                return []          # relational mode: the path is only needed up to this call
        site = f"call:{con.qual}@{self.ntag(node)}"
        old = st.heap
        c0 = Ctx(bound, old, old, st=st)
        # requires -> obligations
        for name, cl in con.requires(c0):
            self.check_clause(st, f"{site}/requires.{name}", cl, "call-pre")
        out = []
        # exceptional outcomes
        any_raise = []
        for exc, condf in con.raises.items():
            only_if = isinstance(condf, tuple)
            cond = (condf[1] if only_if else condf)(c0)
            if isinstance(cond, bool):
                cond = z3.BoolVal(cond)
            if not only_if:
                any_raise.append(cond)
            if self.feasible(st, cond):
                s2 = st.copy()
                s2.assume(cond)
                for d in con.spec_defs(c0):
                    s2.assume(d, name="spec-def")
                s2.tags.append(f"{con.qual.split('.')[-1]}!{exc}")
                if not getattr(con, 'assume_exc_safe', con.exc_safe):
                    self.havoc_unless(con, c0, s2)
                out.append((Exc(exc, con.qual), s2))
        for exc in con.may_raise:
            s2 = st.copy()
            s2.tags.append(f"{con.qual.split('.')[-1]}!{exc}?")
            if not getattr(con, 'assume_exc_safe', con.exc_safe):
                self.havoc_unless(con, c0, s2)
            out.append((Exc(exc, con.qual), s2))
        # normal outcome
        s3 = st.copy()
        if con.raises_iff and any_raise:
            s3.assume(z3.Not(z3.Or(*any_raise)))
        if s3.pc is not st.pc and any_raise and not self.feasible(s3):
            return out
        self.havoc_modifies(con, c0, s3)
        res = self.fresh_result(con, s3)
        c1 = Ctx(bound, old, s3.heap, res=res, st=s3)
        for d in con.spec_defs(c0):
            s3.assume(d, name="spec-def")      # conservative definitions of spec functions
        self.assume_clauses(s3, con.ensures(c1))
        out.append((res, s3))
        return out

    def havoc_unless(self, con, c0, st):
        """exceptional outcome of a callee that is not (assumed) exception safe: the modifies set is havocked, except that
        under con.exc_safe_if the heap is unchanged (If-merge of the two heaps)."""
        if con.exc_safe_if is None:
            return self.havoc_modifies(con, c0, st)
        cond = con.exc_safe_if(c0)
        before = dict(st.heap.arrays)
        self.havoc_modifies(con, c0, st)
        for k, newarr in list(st.heap.arrays.items()):
            old = before.get(k)
            if old is not None and not newarr.eq(old):
                st.heap.set(k, z3.If(cond, old, newarr))

    def fresh_result(self, con, st):
        ty = con.result
        if ty is None:
            return None
        return self.fresh_value(ty, "res")

    def fresh_value(self, ty, prefix="v"):
        if isinstance(ty, tuple) and ty[0] == "opt":
            return OptV(fresh(prefix + "?", B), self.fresh_value(ty[1], prefix))
        if isinstance(ty, tuple) and ty[0] == "tuple":
            return tuple(self.fresh_value(t, prefix) for t in ty[1:])
        if isinstance(ty, tuple) and ty[0] == "list":
            return SeqV(fresh(prefix + ".len", I), fresh(prefix + ".arr", z3.ArraySort(I, sort_of(ty[1]))), ty[1])
        if ty == "slotty":
            return SlotTy(fresh(prefix + ".kind", I), fresh(prefix + ".pulse", Ref))
        if ty == "opaque":
            return Opaque(prefix)
        return Sym(fresh(prefix, sort_of(ty)), ty)

    def havoc_modifies(self, con, c0, st):
        for key, ownersf in con.modifies.items():
            keys = [k for k in HEAP_SORTS if k == key or k.startswith(key + ".") or k == key + "?"]
            owners = ownersf(c0) if ownersf else None
            for k in keys:
                newarr = fresh("H." + k, HEAP_SORTS[k])
                if owners is None:
                    oldarr = st.heap.get(k)
                    st.heap.set(k, newarr)
                    if k == "$alloc":
                        # engine invariant: the heap model never frees (allocation only ever stores True), so a callee can only grow the allocated set
                        r = z3.Const("r!al", Ref)
                        st.assume(z3.ForAll([r], z3.Implies(z3.Select(oldarr, r), z3.Select(newarr, r)), patterns=[z3.Select(newarr, r)]), name="alloc-monotone")
                else:
                    r = z3.Const("r!fr", Ref)
                    oldarr = st.heap.get(k)
                    st.heap.set(k, newarr)
                    outside = z3.Not(owners(r)) if callable(owners) else z3.And(*[r != o for o in owners])
                    st.assume(z3.ForAll([r], z3.Implies(outside, z3.Select(newarr, r) == z3.Select(oldarr, r)), patterns=[z3.Select(newarr, r)]), name="frame")

    # ------------------------------------------------------------ constructors
    def construct(self, cls, args, kwargs, st, node):
        con = REGISTRY.get(f"{cls}.__init__") or REGISTRY.get(f"{cls}.__new__")
        if con is not None and not con.inline:
            m = self.src.find_method(cls, "__init__")
            names = [x.arg for x in m[2].args.args][1:] if m else list(con.params)[1:]
            bound = dict(zip(names, args))
            bound.update(kwargs)
            if m:
                newref = fresh("new" + cls, Ref)
                if con.result is None:
                    # __init__ contract describing the writes to the fresh self
                    st.assume(dyn_class(newref) == SHAPES[cls].cid)
                    alloc = st.heap.get("$alloc")
                    st.assume(z3.Not(z3.Select(alloc, newref)))
                    st.heap.set("$alloc", z3.Store(alloc, newref, z3.BoolVal(True)))
                b2 = self.bind_args(m[2], Sym(newref, ("ref", cls)), args, kwargs, st, node, m[0])
                if isinstance(b2, Exc):
                    return [(b2, st)]
                bound = b2
                if con.result is None:
                    return [(r if isinstance(r, Exc) else Sym(newref, ("ref", cls)), s2) for r, s2 in self.apply_contract(con, bound, st, node)]
            return self.apply_contract(con, bound, st, node)
        if cls not in SHAPES:
            raise OutOfSubset(f"constructor of undeclared class {cls}", node)
        sh = SHAPES[cls]
        order = getattr(sh, "ctor_fields", None)
        if order is None:
            raise OutOfSubset(f"class {cls} has no declared constructor field order", node)
        defaults = getattr(sh, "ctor_defaults", {})
        vals = dict(zip(order, args))
        vals.update(kwargs)
        for f in order:
            if f not in vals:
                if f in defaults:
                    vals[f] = defaults[f]
                else:
                    return [(Exc("TypeError"), st)]
        r = fresh("new" + cls, Ref)
        st.assume(dyn_class(r) == sh.cid)
        if any(mut for _, mut in sh.fields.values()):
            alloc = st.heap.get("$alloc")
            st.assume(z3.Not(z3.Select(alloc, r)))
            st.heap.set("$alloc", z3.Store(alloc, r, z3.BoolVal(True)))
        obj = Sym(r, ("ref", cls))
        for f in order:
            ty, mut = sh.fields[f]
            if mut:
                self.write_field(r, cls, f, vals[f], st, node)
            else:
                self.define_field(r, cls, f, ty, vals[f], st)
        # dataclass __post_init__
        m = self.src.find_method(cls, "__post_init__")
        if m is not None and getattr(sh, "run_post_init", False):
            rs = self.call_method(obj, cls, "__post_init__", [], {}, st, node)
            return [(r2 if isinstance(r2, Exc) else obj, s2) for r2, s2 in rs]
        return [(obj, st)]

    def define_field(self, r, cls, f, ty, val, st):
        owner = field_owner(cls, f)
        key = f"{owner}.{f}"
        if ty == "slotty":
            if isinstance(val, str):
                code = {"target": 0, "delay": 1}.get(val)
                if code is None:
                    raise OutOfSubset(f"slot type string {val!r}")
                eqs = [(uf(key + ".kind", Ref, I)(r), z3.IntVal(code))]
            elif isinstance(val, SlotTy):
                eqs = [(uf(key + ".kind", Ref, I)(r), val.kind), (uf(key + ".pulse", Ref, Ref)(r), val.pulse)]
            elif isinstance(val, Sym) and is_ref_ty(val.ty):
                eqs = [(uf(key + ".kind", Ref, I)(r), z3.IntVal(2)), (uf(key + ".pulse", Ref, Ref)(r), val.t)]
            else:
                raise OutOfSubset(f"slot type from {val!r}")
        elif isinstance(ty, tuple) and ty[0] == "opt" and isinstance(ty[1], tuple) and ty[1][0] == "list":
            ety = ty[1][1]
            if val is None:
                eqs = [(uf(key + "?", Ref, B)(r), z3.BoolVal(True))]
            else:
                isn = val.none if isinstance(val, OptV) else z3.BoolVal(False)
                sv = self.as_seq(val.val if isinstance(val, OptV) else val, st, ety)
                eqs = [(uf(key + "?", Ref, B)(r), isn), (uf(key + ".len", Ref, I)(r), sv.n), (uf(key + ".at", Ref, z3.ArraySort(I, sort_of(ety)))(r), sv.arr)]
        elif isinstance(ty, tuple) and ty[0] == "opt":
            if val is None:
                eqs = [(uf(key + "?", Ref, B)(r), z3.BoolVal(True))]
            elif isinstance(val, OptV):
                eqs = [(uf(key + "?", Ref, B)(r), val.none), (uf(key, Ref, sort_of(ty[1]))(r), self.coerce(val.val, ty[1]))]
            else:
                eqs = [(uf(key + "?", Ref, B)(r), z3.BoolVal(False)), (uf(key, Ref, sort_of(ty[1]))(r), self.coerce(val, ty[1]))]
        elif ty == "opaque":
            eqs = []
        elif isinstance(ty, tuple) and ty[0] == "list":
            sv = self.as_seq(val, st, ty[1])
            eqs = [(uf(key + ".len", Ref, I)(r), sv.n), (uf(key + ".at", Ref, z3.ArraySort(I, sort_of(ty[1])))(r), sv.arr)]
        else:
            eqs = [(uf(key, Ref, sort_of(ty))(r), self.coerce(val, ty))]
        for lhs, rhs in eqs:
            st.assume(lhs == rhs)
            st.defs.append((lhs, rhs))

    # ------------------------------------------------------------ builtin methods on values
    def call_builtin_method(self, v, name, args, kwargs, st, node):
        if isinstance(v, ListLoc):
            if name == "append":
                n = st.heap.read(v.key + ".len", v.owner)
                arr = st.heap.read(v.key + ".at", v.owner)
                self.note_write(v.key, v.owner, st)
                st.heap.write(v.key + ".at", v.owner, z3.Store(arr, n, self.coerce(args[0], v.ety)))
                st.heap.write(v.key + ".len", v.owner, n + 1)
                return [(None, st)]
            if name == "copy":
                return [(self.as_seq(v, st), st)]
            if name == "insert":
                n = st.heap.read(v.key + ".len", v.owner)
                arr = st.heap.read(v.key + ".at", v.owner)
                it, _ = znum(args[0])
                self.oblige(st, f"safe:insert-index-in-range@{self.ntag(node)}", z3.And(it >= 0, it <= n), "safety")
                k = z3.Int("k!ins")
                x = self.coerce(args[1], v.ety)
                newarr = z3.Lambda([k], z3.If(k < it, z3.Select(arr, k), z3.If(k == it, x, z3.Select(arr, k - 1))))
                self.note_write(v.key, v.owner, st)
                st.heap.write(v.key + ".at", v.owner, newarr)
                st.heap.write(v.key + ".len", v.owner, n + 1)
                return [(None, st)]
            if name == "index":
                sv = self.as_seq(v, st)
                xt = self.coerce(args[0], sv.ety)
                j = z3.Int("j!ix")
                found = z3.Exists([j], z3.And(0 <= j, j < sv.n, z3.Select(sv.arr, j) == xt))
                out = []
                for side, s2 in self.branch(found, st, "index"):
                    if not side:
                        out.append((Exc("ValueError"), s2))
                    else:
                        i = fresh("idx", I)
                        s2.assume(0 <= i, i < sv.n, z3.Select(sv.arr, i) == xt,
                                  z3.ForAll([j], z3.Implies(z3.And(0 <= j, j < i), z3.Select(sv.arr, j) != xt), patterns=[z3.Select(sv.arr, j)]))
                        out.append((Sym(i, "int"), s2))
                return out
        from .expr import ImgSet, ImgSetQ
        if isinstance(v, ImgSetQ) and name == "pop":
            out = []
            qa = z3.Const("qa!pop", Qid)
            for side, s2 in self.branch(z3.Exists([qa], z3.Select(v.dom, qa)), st, "pop"):
                if not side:
                    out.append((Exc("KeyError"), s2))
                else:
                    w = fresh("popq", Qid)
                    s2.assume(z3.Select(v.dom, w))
                    out.append((Sym(v.val(w), v.ety), s2))
            return out
        if isinstance(v, ImgSet) and name == "pop":
            sq = v.seq
            out = []
            for side, s2 in self.branch(sq.n >= 1, st, "pop"):
                if not side:
                    out.append((Exc("KeyError"), s2))
                else:
                    w = fresh("popidx", I)
                    s2.assume(0 <= w, w < sq.n)
                    out.append((Sym(z3.Select(sq.arr, w), sq.ety), s2))
            return out
        if isinstance(v, Sym) and v.ty == "str" and name in ("startswith", "endswith") and isinstance(args[0], str):
            from .core import PStr
            f = uf("str." + name, PStr, PStr, B)       # uninterpreted: only its being a function of the two strings is used
            return [(Sym(f(v.t, str_const(args[0])), "bool"), st)]
        if isinstance(v, PyList):
            if name == "append":
                v.items.append(args[0])
                return [(None, st)]
            if name == "pop" and v.kind == "set" and len(v.items) == 1:
                return [(v.items.pop(), st)]
        if isinstance(v, MapLoc):
            if name in ("items", "keys", "values"):
                return [(IterV("items", [v, name]), st)]
        if isinstance(v, PyDict):
            if name == "values":
                return [(PyList(list(v.d.values())), st)]
            if name == "keys":
                return [(PyList(list(v.d.keys())), st)]
            if name == "items":
                return [(PyList([(k, x) for k, x in v.d.items()]), st)]
            if name == "get":
                return [(v.d.get(args[0], args[1] if len(args) > 1 else None), st)]
        m = self.models.get(f"<builtin>.{name}")
        if m:
            return m(self, [v] + list(args), kwargs, st, node)
        raise OutOfSubset(f"builtin method {name} on {v!r}", node)


class StarArg:
    def __init__(self, v):
        self.v = v
