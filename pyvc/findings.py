"""Known-findings protocol (DESIGN appendix B) and counter-model extraction."""
from __future__ import annotations

import json
import os
import re

VERIF = os.path.dirname(os.path.dirname(os.path.abspath(__file__)))
_cache = None


def load():
    global _cache
    if _cache is None:
        p = os.path.join(VERIF, "known_findings.json")
        _cache = json.load(open(p)) if os.path.exists(p) else []
    return _cache


def known(prop=None):
    return [k for k in load() if k.get("status") == "known" and (prop is None or k["property"] == prop)]


def match(prop, ob_name):
    for k in known(prop):
        if k.get("obligation") and re.search(k["obligation"], ob_name):
            return k
    return None


def install_unassumed():
    """Clauses with a known finding are never *assumed* at call sites (a caller must not rely on a false clause)."""
    from .contracts import REGISTRY
    for k in known():
        for qual, clause in k.get("unassume", []):
            con = REGISTRY.get(qual)
            if con is None:
                continue
            orig = con.ensures
            con.ensures = (lambda orig, clause: (lambda c: [(n, cl) for n, cl in orig(c) if n != clause]))(orig, clause)
            con._verify_ensures = orig
        for qual in k.get("unassume_exc_safe", []):
            if qual in REGISTRY:
                REGISTRY[qual].assume_exc_safe = False
    # the function's own verification still checks the full list
    return


def check_outside_class(kf, ob, con, timeout_ms):
    """Re-pose the failed obligation with the extra hypothesis 'not in the witness class'."""
    import z3
    from props.classes import CLASSES
    from .vc import _check
    f = CLASSES.get(kf["witness_class_id"])
    if f is None:
        return "no-class"
    try:
        inside = f(ob, con)
    except Exception as ex:  # noqa
        return "class-error:" + repr(ex)[:100]
    hints = []
    if isinstance(inside, tuple):
        inside, hints = inside
    for h in hints:   # a hint must be valid on its own before it may be used
        r, dt, s = _check(ob.hyps, h, timeout_ms)
        if r != z3.unsat:
            return "hint-not-valid"
    r, dt, s = _check(ob.hyps + hints + [z3.Not(inside)], ob.goal, timeout_ms)
    if r == z3.unknown:
        qf = [h for h in ob.hyps if not z3.is_quantifier(h)]
        r, dt, s = _check(qf + hints + [z3.Not(inside)], ob.goal, timeout_ms)
    return str(r)


def extract_model(m, ob, con):
    """Readable slice of a counter-model: scalar constants + channel fields of every Ref constant of class Channel."""
    import z3
    out = {}
    for d in m.decls():
        if d.arity() == 0:
            v = m[d]
            s = str(v)
            if len(s) < 60:
                out[str(d)] = s
    try:
        from contracts.lib import clock, min_dur, max_dur, max_dur_none, modbw, modbw_none, RISE, fget, fnone, cs_chan
        from .core import Ref
        chans = {}
        for d in m.decls():
            if d.arity() == 0 and d.range() == Ref:
                r = d()
                rec = {}
                for nm, t in (("clock_period", clock(r)), ("min_duration", min_dur(r)), ("max_duration_none", max_dur_none(r)), ("max_duration", max_dur(r)),
                              ("mod_bandwidth_none", modbw_none(r)), ("rise_time", RISE(r)),
                              ("min_retarget_interval", fget("Channel", "min_retarget_interval", r)), ("fixed_retarget_t", fget("Channel", "fixed_retarget_t", r))):
                    rec[nm] = str(m.eval(t, model_completion=True))
                chans[str(d)] = rec
                c2 = cs_chan(r)
                rec2 = {nm: str(m.eval(t, model_completion=True)) for nm, t in (("clock_period", clock(c2)), ("min_duration", min_dur(c2)),
                        ("max_duration_none", max_dur_none(c2)), ("max_duration", max_dur(c2)), ("rise_time", RISE(c2)),
                        ("min_retarget_interval", fget("Channel", "min_retarget_interval", c2)), ("fixed_retarget_t", fget("Channel", "fixed_retarget_t", c2)))}
                chans[str(d) + ".channel_obj"] = rec2
        out["$channels"] = chans
    except Exception as ex:  # noqa
        out["$channels_error"] = repr(ex)[:200]
    return out


def report_known(prop, known_obs, standin):
    """KNOWN-FINDING lines: one per listed finding that still reproduces (symbolically or concretely)."""
    lines = []
    ids = {o["known_finding"] for o in known_obs}
    conc = {f.get("known") for f in standin.get("failures", []) if f.get("known")}
    stale = set(standin.get("stale_findings", []))
    for k in known(prop):
        if k["id"] in ids or k["id"] in conc:
            lines.append(f"KNOWN-FINDING: property={prop} {k['what_fails']} [{k['id']}]")
        elif k["id"] in stale:
            lines.append(f"STALE-FINDING: property={prop} {k['id']} no longer reproduces")
    return lines
