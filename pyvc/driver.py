"""Property-level driver: VC generation + discharge in a process pool, known findings, replay, evidence."""
from __future__ import annotations

import hashlib
import json
import multiprocessing as mp
import os
import re
import subprocess
import sys
import time

VERIF = os.path.dirname(os.path.dirname(os.path.abspath(__file__)))
REPO = os.environ.get("PYVC_ROOT", "/repo")
OUT = os.path.join(VERIF, "out")
TREE_PY = "/venv/bin/python"


def load_contracts():
    import importlib
    import pkgutil
    sys.path.insert(0, VERIF)
    import contracts.shapes  # noqa
    import contracts
    for m in sorted(pkgutil.iter_modules(contracts.__path__), key=lambda m: m.name):
        if m.name not in ("shapes", "lib"):
            importlib.import_module("contracts." + m.name)


def clause_key(name):
    """'f/ensures.INV.x@split0[tags]#2' -> 'f/ensures.INV.x'"""
    base = name.split("[")[0]
    base = re.sub(r"@split\d+", "", base)
    base = re.sub(r"@#\d+", "", base)
    return base


# --------------------------------------------------------------------------
# property map: which obligations decide which property
# --------------------------------------------------------------------------
def obligations_for(prop, con, ob_name, kind):
    from props.table import OWNED, PROPS
    key = clause_key(ob_name)
    only = PROPS.get(prop, {}).get("only")
    if only and not re.search(only, key):
        return False
    for rx, owners in OWNED:
        if re.search(rx, key):
            return prop in owners
    return prop in con.props


# --------------------------------------------------------------------------
# worker
# --------------------------------------------------------------------------
def _work(task):
    qual, shard, nshards, prop, timeout_ms, tier = task
    t0 = time.time()
    try:
        import z3
        load_contracts()
        from pyvc.source import SourceIndex
        from pyvc.contracts import REGISTRY, LEMMAS
        from pyvc.models import MODELS
        from pyvc.vc import verify_function, verify_lemma, discharge
        from contracts.lib import AXIOMS
        from pyvc import findings
        findings.install_unassumed()
        axioms = [f for _, f, _ in AXIOMS]
        if qual.startswith("lemma:"):
            obs = verify_lemma(qual[6:], axioms)
            res = dict(obligations=obs, paths=1, error=None, meta={})
            con = None
            src = None
        else:
            src = SourceIndex(REPO).load_tree()
            con = REGISTRY[qual]
            res = verify_function(src, con, MODELS, axioms=axioms)
        if res["error"]:
            return dict(qual=qual, shard=shard, error=res["error"], results=[], paths=0, gen_s=time.time() - t0)
        gen_s = time.time() - t0
        # unique names
        seen = {}
        for ob in res["obligations"]:
            seen[ob.name] = seen.get(ob.name, 0) + 1
            if seen[ob.name] > 1:
                ob.name = f"{ob.name}#{seen[ob.name]}"
        out = []
        for i, ob in enumerate(res["obligations"]):
            if i % nshards != shard:
                continue
            if con is not None and not obligations_for(prop, con, ob.name, ob.kind):
                continue
            d = discharge(ob, timeout_ms=timeout_ms)
            rec = dict(name=ob.name, kind=ob.kind, verdict=d["verdict"], time_s=d["time_s"], tried=d.get("tried"))
            if d["verdict"] != "unsat":
                rec["reason"] = d.get("reason", "")
                rec["goal"] = str(ob.goal)[:1500]
                if d["verdict"] == "sat":
                    rec["model"] = findings.extract_model(d["model_obj"], ob, con)
                # known finding: re-pose outside the witness class
                kf = findings.match(prop, ob.name)
                if kf is not None:
                    rec["known_finding"] = kf["id"]
                    rec["outside_class"] = findings.check_outside_class(kf, ob, con, timeout_ms)
            if tier == "thorough" and d["verdict"] == "unsat" and i % 7 == 0:
                rec["cvc5"] = cross_check(ob, d)
            if d["verdict"] == "unsat" and (i % 10 == 0 or tier == "thorough"):
                # vacuity: hypotheses must be satisfiable (unknown accepted)
                import z3 as _z
                s = _z.Solver()
                s.set("timeout", 1500)
                for h in ob.hyps:
                    s.add(h)
                rec["hyps_sat"] = str(s.check())
            if len(out) < 3 or d["verdict"] != "unsat":
                rec["smt_head"] = str(ob.goal)[:300]
            out.append(rec)
        fn_meta = {}
        if con is not None and shard == 0:
            fd = src.find(con.file, con.qual)
            fn_meta = dict(file=con.file, qual=con.qual, sha=src.src_hash(con.file, fd), paths=res["paths"], n_all=len(res["obligations"]))
        return dict(qual=qual, shard=shard, error=None, results=out, paths=res["paths"], gen_s=round(gen_s, 2), fn=fn_meta,
                    wall_s=round(time.time() - t0, 2))
    except Exception as ex:  # checker error, never a verdict
        import traceback
        return dict(qual=qual, shard=shard, error="CHECKER-ERROR " + repr(ex) + "\n" + traceback.format_exc()[-1500:], results=[], paths=0, checker_error=True)


def cross_check(ob, d):
    """re-discharge with /usr/bin/cvc5 through SMT-LIB (thorough tier)."""
    import z3
    s = z3.Solver()
    for h in ob.hyps:
        s.add(h)
    s.add(z3.Not(ob.goal))
    txt = "(set-logic ALL)\n" + s.to_smt2()
    os.makedirs(OUT, exist_ok=True)
    path = os.path.join(OUT, f"x-{os.getpid()}.smt2")
    with open(path, "w") as f:
        f.write(txt)
    try:
        r = subprocess.run(["/usr/bin/cvc5", "--tlimit=8000", path], capture_output=True, text=True, timeout=15)
        ans = (r.stdout.strip().splitlines() or ["?"])[0]
    except Exception as ex:
        ans = "error:" + type(ex).__name__
    finally:
        try:
            os.remove(path)
        except OSError:
            pass
    return ans


# --------------------------------------------------------------------------
# main entry
# --------------------------------------------------------------------------
HEAVY = {"_Schedule.make_next_pulse_slot": 6, "_Schedule.add_target": 4, "_Schedule.add_pulse": 3,
         "_Schedule._find_add_delay": 3, "_Schedule.add_delay": 2, "_Schedule.enable_eom": 3, "_Schedule.disable_eom": 2}


def run_property(prop, tier="quick", seed=0):
    t_start = time.time()
    load_contracts()
    from pyvc.contracts import REGISTRY, LEMMAS
    from pyvc import findings
    from props.table import PROPS
    spec = PROPS[prop]
    quals = [q for q, c in REGISTRY.items() if prop in c.props and not c.inline and not c.trusted]
    lem = [f"lemma:{n}" for n in spec.get("lemmas", [])]
    timeout_ms = 10000 if tier == "quick" else 30000
    tasks = []
    for q in quals + lem:
        k = HEAVY.get(q, 1)
        for sh in range(k):
            tasks.append((q, sh, k, prop, timeout_ms, tier))
    tasks.sort(key=lambda t: -HEAVY.get(t[0], 1))
    ctx = mp.get_context("fork")
    with ctx.Pool(min(16, max(1, len(tasks)))) as pool:
        results = pool.map(_work, tasks, chunksize=1)
    return assemble(prop, tier, seed, spec, quals, lem, results, t_start)


def assemble(prop, tier, seed, spec, quals, lem, results, t_start):
    from pyvc.contracts import REGISTRY
    from pyvc import findings
    from contracts.lib import AXIOMS
    errors = [r for r in results if r["error"]]
    obs = [o for r in results for o in r["results"]]
    fns = [r["fn"] for r in results if r.get("fn")]
    discharged = [o for o in obs if o["verdict"] == "unsat"]
    failed = [o for o in obs if o["verdict"] != "unsat"]
    lines, violations, undecided, known = [], [], [], []
    status = 0
    os.makedirs(os.path.join(OUT, "replays"), exist_ok=True)
    for o in failed:
        if o.get("known_finding") and o.get("outside_class") == "unsat":
            known.append(o)
            continue
        if o["verdict"] == "sat" or o.get("known_finding"):
            violations.append(o)
        else:
            undecided.append(o)
    # bounded stand-in / replay harness on the real tree (also the source of concrete replays)
    standin = run_standin(prop, tier, seed, hints=[o.get("model") for o in violations + undecided if o.get("model")])
    kf_lines = findings.report_known(prop, known, standin)
    lines += kf_lines
    replay_path = None
    new_failures = [f for f in standin.get("failures", []) if not f.get("known")]
    if new_failures:
        replay_path = os.path.join(OUT, "replays", f"{prop}-standin.json")
        with open(replay_path, "w") as f:
            json.dump(dict(property=prop, status="replayed", failures=new_failures[:5],
                           obligations=[dict(name=o["name"], verdict=o["verdict"], model=o.get("model")) for o in (violations + undecided)[:10]]), f, indent=1, default=str)
    if violations or new_failures:
        status = 1
        if replay_path is None:
            replay_path = os.path.join(OUT, "replays", f"{prop}-{hashlib.sha1(violations[0]['name'].encode()).hexdigest()[:10]}.json")
            with open(replay_path, "w") as f:
                json.dump(dict(property=prop, status="no-failing-input-found",
                               obligations=[dict(name=o["name"], verdict=o["verdict"], reason=o.get("reason"), model=o.get("model"), goal=o.get("goal"),
                                                 known_finding=o.get("known_finding"), outside_class=o.get("outside_class")) for o in violations[:10]],
                               tried=standin.get("summary")), f, indent=1, default=str)
            lines.append(f"VIOLATION property={prop} replay={replay_path} no-failing-input-found")
        else:
            lines.append(f"VIOLATION property={prop} replay={replay_path}")
        for o in violations[:8]:
            lines.append(f"  failed obligation: {o['name']} ({o['verdict']})")
    elif undecided:
        status = 2
        for o in undecided[:8]:
            lines.append(f"UNDECIDED property={prop} obligation={o['name']} reason={o.get('reason', '')}")
    if errors:
        status = 3 if status == 0 else status
        for e in errors[:5]:
            lines.append(f"CHECKER-ERROR property={prop} function={e['qual']} {e['error'][:400]}")
    if not obs and not errors:
        status = 3
        lines.append(f"CHECKER-ERROR property={prop} zero obligations")
    vac = [o for o in obs if o.get("hyps_sat") == "unsat"]
    if vac:
        status = 3 if status == 0 else status
        lines.append(f"CHECKER-ERROR property={prop} vacuous hypotheses in {vac[0]['name']}")
    trusted = sorted({f"{c.qual}: {c.note}" for c in REGISTRY.values() if c.trusted and (prop in c.props)})
    inl = sorted({c.qual for c in REGISTRY.values() if c.inline})
    ev = {
        "property_id": prop, "tier": tier, "seed": seed, "level": "proof",
        "coverage": {
            "obligations": len(obs) - len(known), "discharged": len(discharged),
            "checker_cmd": f"./check {prop} --tier {tier}",
            "trusted_base": ["CPython ast", "z3 5.1.0 (python3-vt)", "pyvc VC generator (/verif/pyvc)"] + (["cvc5 1.0.3 cross-check"] if tier == "thorough" else []),
            "functions_under_contract": fns,
            "lemmas": lem,
            "by_backend": {"z3": len(discharged), "cvc5_rechecked": sum(1 for o in obs if o.get("cvc5")),
                           "cvc5_agree": sum(1 for o in obs if o.get("cvc5") == "unsat")},
            "solver_time_s": round(sum(o["time_s"] for o in obs), 2),
            "ladder": {k: sum(1 for o in discharged if (o.get("tried") or ["full"])[-1] == k) for k in ("full", "quantifier-free-hyps", "sliced", "full-long", "seed7")},
            "samples": [dict(name=o["name"], verdict=o["verdict"], goal_head=o.get("smt_head", "")) for o in obs[:4]],
            "vacuity": {"hyps_checked": sum(1 for o in obs if "hyps_sat" in o), "hyps_sat": sum(1 for o in obs if o.get("hyps_sat") == "sat"),
                        "hyps_unknown": sum(1 for o in obs if o.get("hyps_sat") == "unknown")},
            "known_findings": sorted({o["known_finding"] for o in known}),
            "not_discharged": [dict(name=o["name"], verdict=o["verdict"]) for o in failed if o not in known][:20],
            "trusted_contracts": trusted, "inlined_accessors": inl,
            "axioms": [f"{n}: {w}" for n, _, w in AXIOMS],
            "bounded_standins": standin.get("summary", {}),
            "clauses_not_decided": spec.get("not_decided", []),
            "evaluations": standin.get("summary", {}).get("evaluations", 0),
            "distinct_nontrivial": standin.get("summary", {}).get("distinct_nontrivial", 0),
            "rule": standin.get("summary", {}).get("rule", ""),
        },
        "assumptions": spec.get("assumptions", []) + ["A-REAL floats as reals", "A-WARN warnings do not raise", "A-IMMUT cached/frozen objects are not mutated",
                                                      "A-TYPES annotated types hold", "termination not verified"],
        "wall_s": round(time.time() - t_start, 2),
        "violations": len(violations) + len(new_failures),
    }
    if not os.environ.get("VERIF_NO_EVIDENCE"):     # (developer runs against scratch trees do not overwrite evidence)
        os.makedirs(os.path.join(VERIF, "evidence"), exist_ok=True)
        with open(os.path.join(VERIF, "evidence", f"{prop}.json"), "w") as f:
            json.dump(ev, f, indent=1, default=str)
    print(f"{prop}: functions={len(quals)} lemmas={len(lem)} obligations={len(obs)} discharged={len(discharged)} known-findings={len(known)} "
          f"violations={len(violations)} undecided={len(undecided)} errors={len(errors)} standin-evals={standin.get('summary', {}).get('evaluations', 0)} "
          f"wall={ev['wall_s']}s")
    for ln in lines:
        print(ln)
    return status


def run_standin(prop, tier, seed, hints):
    """Bounded stand-in + replay vehicle: concrete contract evaluation on the real tree under /venv/bin/python."""
    script = os.path.join(VERIF, "replay", "harness.py")
    if not os.path.exists(script):
        return {}
    os.makedirs(OUT, exist_ok=True)
    hint_file = os.path.join(OUT, f"hints-{prop}.json")
    with open(hint_file, "w") as f:
        json.dump(hints, f, default=str)
    env = dict(os.environ)
    env["PYTHONPATH"] = f"{REPO}/pulser-core:{REPO}/pulser-simulation"
    env["MPLBACKEND"] = "Agg"
    try:
        r = subprocess.run([TREE_PY, script, prop, "--tier", tier, "--seed", str(seed), "--hints", hint_file],
                           capture_output=True, text=True, timeout=900 if tier == "quick" else 3600, env=env, cwd="/tmp")
        last = [ln for ln in r.stdout.splitlines() if ln.startswith("{")]
        if not last:
            return {"summary": {"error": (r.stderr or r.stdout)[-800:]}}
        return json.loads(last[-1])
    except subprocess.TimeoutExpired:
        return {"summary": {"error": "stand-in timeout"}}


def main(argv):
    prop = argv[0]
    tier = os.environ.get("VERIF_TIER", "quick")
    if "--tier" in argv:
        tier = argv[argv.index("--tier") + 1]
    seed = int(os.environ.get("VERIF_SEED", "0") or 0)
    if "--replay" in argv:
        return replay(prop, argv[argv.index("--replay") + 1])
    return run_property(prop, tier, seed)


def replay(prop, path):
    with open(path) as f:
        data = json.load(f)
    print(json.dumps({k: data[k] for k in data if k != "failures"}, indent=1)[:2000])
    script = os.path.join(VERIF, "replay", "harness.py")
    env = dict(os.environ)
    env["PYTHONPATH"] = f"{REPO}/pulser-core:{REPO}/pulser-simulation"
    r = subprocess.run([TREE_PY, script, prop, "--replay", path], env=env, cwd="/tmp")
    return r.returncode


if __name__ == "__main__":
    sys.exit(main(sys.argv[1:]))
