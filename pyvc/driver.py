"""Property-level driver: VC generation + discharge in a process pool, known findings, replay, evidence."""
from __future__ import annotations

import hashlib
import json
import multiprocessing as mp
import os
import re
import subprocess
import sys
import time

VERIF = os.path.dirname(os.path.dirname(os.path.abspath(__file__)))
REPO = os.environ.get("PYVC_ROOT", "/repo")
OUT = os.path.join(VERIF, "out")
TREE_PY = "/venv/bin/python"


def load_contracts():
    import importlib
    import pkgutil
    sys.path.insert(0, VERIF)
    import contracts.shapes  # noqa
    import contracts
    for m in sorted(pkgutil.iter_modules(contracts.__path__), key=lambda m: m.name):
        if m.name not in ("shapes", "lib"):
            importlib.import_module("contracts." + m.name)


def clause_key(name):
    """'f/ensures.INV.x@split0[tags]#2' -> 'f/ensures.INV.x'"""
    base = name.split("[")[0]
    base = re.sub(r"@split\d+", "", base)
    base = re.sub(r"@#\d+", "", base)
    return base


# --------------------------------------------------------------------------
# property map: which obligations decide which property
# --------------------------------------------------------------------------
def load_baseline(prop):
    p = os.path.join(VERIF, "baseline", f"{prop}.json")
    try:
        return set(json.load(open(p))["discharged_clauses"])
    except Exception:
        return set()


def obligations_for(prop, con, ob_name, kind):
    from props.table import OWNED, PROPS
    key = clause_key(ob_name)
    only = PROPS.get(prop, {}).get("only")
    if only and not re.search(only, key):
        return False
    for rx, owners in OWNED:
        if re.search(rx, key):
            return prop in owners
    return prop in con.props


# --------------------------------------------------------------------------
# worker
# --------------------------------------------------------------------------
_G = {}   # per-process globals for forked discharge workers


def _generate(qual):
    """-> (obligations, con, src, res) for a function or lemma; never raises (returns error)."""
    load_contracts()
    from pyvc.source import SourceIndex
    from pyvc.contracts import REGISTRY
    from pyvc.models import MODELS
    from pyvc.vc import verify_function, verify_lemma
    from contracts.lib import AXIOMS
    from pyvc import findings
    findings.install_unassumed()
    axioms = [f for _, f, _ in AXIOMS]
    if qual.startswith("lemma:"):
        obs = verify_lemma(qual[6:], axioms)
        return obs, None, None, dict(obligations=obs, paths=1, error=None, meta={})
    if qual.startswith("rel:"):
        from pyvc.relational import RELATIONS
        obs = RELATIONS[qual[4:]](SourceIndex(REPO).load_tree(), MODELS, axioms)
        seen = {}
        for ob in obs:
            seen[ob.name] = seen.get(ob.name, 0) + 1
            if seen[ob.name] > 1:
                ob.name = f"{ob.name}#{seen[ob.name]}"
        return obs, None, None, dict(obligations=obs, paths=1, error=None, meta={})
    src = SourceIndex(REPO).load_tree()
    con = REGISTRY[qual]
    res = verify_function(src, con, MODELS, axioms=axioms)
    obs = res["obligations"]
    seen = {}
    for ob in obs:
        seen[ob.name] = seen.get(ob.name, 0) + 1
        if seen[ob.name] > 1:
            ob.name = f"{ob.name}#{seen[ob.name]}"
    return obs, con, src, res


def _to_smt2(ob):
    import z3
    from pyvc.core import str_axioms
    s = z3.Solver()
    hyps = list(ob.hyps) + str_axioms()        # distinctness of the string literals met during generation travels with the obligation
    names = ob.meta.get("hyp_names")
    if names is not None:
        ob.meta["hyp_names"] = list(names) + [None] * (len(hyps) - len(names))
    for h in hyps:
        s.add(h)
    s.add(z3.Not(ob.goal))
    return s.to_smt2()


def _child_init():
    load_contracts()
    from pyvc import findings
    findings.install_unassumed()


def _discharge_smt2(job):
    """runs in a fresh (spawned) process: parse the obligation back from SMT-LIB and discharge it"""
    i, name, kind, smt2, hyp_names, prop, timeout_ms, tier, qual = job
    import z3
    from pyvc.vc import discharge
    from pyvc.interp import Obligation
    from pyvc import findings
    from pyvc.contracts import REGISTRY
    try:
        if not _G.get("init"):
            _child_init()
            _G["init"] = True
        fs = list(z3.parse_smt2_string(smt2))
        hyps, neg = fs[:-1], fs[-1]
        goal = neg.children()[0] if z3.is_not(neg) else z3.Not(neg)
        names = hyp_names if len(hyp_names) == len(hyps) else [None] * len(hyps)
        ob = Obligation(name, hyps, goal, kind, {"hyp_names": names})
        con = REGISTRY.get(qual)
        if con is not None and getattr(con, "slices", None):
            from pyvc.vc import _keywords
            ob.meta["slice_hints"] = con.slices.get(_keywords(name))
        d = discharge(ob, timeout_ms=timeout_ms)
        rec = dict(name=name, kind=kind, verdict=d["verdict"], time_s=d["time_s"], tried=d.get("tried"), idx=i)
        if d["verdict"] != "unsat":
            rec["reason"] = d.get("reason", "")
            rec["goal"] = str(goal)[:1500]
            if d["verdict"] in ("sat", "sat?"):
                rec["model"] = findings.extract_model(d["model_obj"], ob, con)
            kf = findings.match(prop, name)
            if kf is not None:
                rec["known_finding"] = kf["id"]
                rec["outside_class"] = findings.check_outside_class(kf, ob, con, timeout_ms)
        if tier == "thorough" and d["verdict"] == "unsat" and i % 7 == 0:
            rec["cvc5"] = cross_check(ob, d)
        if d["verdict"] == "unsat" and (i % 5 == 0 or tier == "thorough"):
            # vacuity guard: the hypotheses must be satisfiable; the quantifier-free part is decided quickly and catches
            # contradictory path facts even when the full set comes back 'unknown'
            from pyvc.vc import has_quant
            s = z3.Solver()
            s.set("timeout", 2000)
            for h in hyps:
                if not has_quant(h):
                    s.add(h)
            r_qf = s.check()
            if r_qf == z3.unsat:
                rec["hyps_sat"] = "unsat"
            else:
                s = z3.Solver()
                s.set("timeout", 1500)
                for h in hyps:
                    s.add(h)
                r_all = s.check()
                rec["hyps_sat"] = "unsat" if r_all == z3.unsat else ("sat" if r_all == z3.sat else "qf-sat" if r_qf == z3.sat else "unknown")
        if i < 3 or d["verdict"] != "unsat":
            rec["smt_head"] = str(goal)[:300]
        return rec
    except Exception as ex:
        import traceback
        return dict(name=name, kind=kind, verdict="error", time_s=0, error=repr(ex) + traceback.format_exc()[-800:], idx=i)


def _discharge_one(i):
    from pyvc.vc import discharge
    from pyvc import findings
    ob, con, prop, timeout_ms, tier = _G["obs"][i], _G["con"], _G["prop"], _G["timeout_ms"], _G["tier"]
    try:
        d = discharge(ob, timeout_ms=timeout_ms)
        rec = dict(name=ob.name, kind=ob.kind, verdict=d["verdict"], time_s=d["time_s"], tried=d.get("tried"), idx=i)
        if d["verdict"] != "unsat":
            rec["reason"] = d.get("reason", "")
            rec["goal"] = str(ob.goal)[:1500]
            if d["verdict"] == "sat":
                rec["model"] = findings.extract_model(d["model_obj"], ob, con)
            kf = findings.match(prop, ob.name)
            if kf is not None:
                rec["known_finding"] = kf["id"]
                rec["outside_class"] = findings.check_outside_class(kf, ob, con, timeout_ms)
        if tier == "thorough" and d["verdict"] == "unsat" and i % 7 == 0:
            rec["cvc5"] = cross_check(ob, d)
        if d["verdict"] == "unsat" and (i % 10 == 0 or tier == "thorough"):
            import z3 as _z
            s = _z.Solver()
            s.set("timeout", 1500)
            for h in ob.hyps:
                s.add(h)
            rec["hyps_sat"] = str(s.check())
        if i < 3 or d["verdict"] != "unsat":
            rec["smt_head"] = str(ob.goal)[:300]
        return rec
    except Exception as ex:
        import traceback
        return dict(name=ob.name, kind=ob.kind, verdict="error", time_s=0, error=repr(ex) + traceback.format_exc()[-800:], idx=i)


def funcworker(qual, prop, tier, jobs, gen_only=None):
    """Generate the VCs of one function once.  gen_only=<path>: write the SMT-LIB jobs there (phase 1 of a property run);
    otherwise discharge them here in `jobs` spawned workers and print one JSON line (developer runner)."""
    import pickle
    t0 = time.time()
    timeout_ms = 10000 if tier == "quick" else 30000
    try:
        obs, con, src, res = _generate(qual)
    except Exception as ex:
        import traceback
        r = dict(qual=qual, error="CHECKER-ERROR " + repr(ex) + "\n" + traceback.format_exc()[-1500:], results=[], paths=0, checker_error=True, jobs=[])
        if gen_only:
            pickle.dump(r, open(gen_only, "wb"))
        else:
            print(json.dumps(r))
        return
    if res["error"]:
        r = dict(qual=qual, error=res["error"], results=[], paths=0, gen_s=round(time.time() - t0, 2), jobs=[])
        if gen_only:
            pickle.dump(r, open(gen_only, "wb"))
        else:
            print(json.dumps(r))
        return
    gen_s = time.time() - t0
    idxs = [i for i, ob in enumerate(obs) if con is None or prop == "DEV" or obligations_for(prop, con, ob.name, ob.kind)]
    qn = con.qual if con else ""
    fn_meta = {}
    if con is not None:
        fd = src.find(con.file, con.qual)
        fn_meta = dict(file=con.file, qual=con.qual, sha=src.src_hash(con.file, fd), paths=res["paths"], n_all=len(obs))
    jobs_l = [(i, obs[i].name, obs[i].kind, _to_smt2(obs[i]), obs[i].meta.get("hyp_names") or [], prop, timeout_ms, tier, qn) for i in idxs]
    if gen_only:
        pickle.dump(dict(qual=qual, error=None, paths=res["paths"], gen_s=round(gen_s, 2), fn=fn_meta, jobs=jobs_l), open(gen_only, "wb"))
        return
    from concurrent.futures import ProcessPoolExecutor
    with ProcessPoolExecutor(max_workers=max(1, jobs), mp_context=mp.get_context("spawn")) as ex:
        out = list(ex.map(_discharge_smt2, jobs_l, chunksize=max(1, len(jobs_l) // (max(1, jobs) * 6))))
    errs = [o for o in out if o["verdict"] == "error"]
    print(json.dumps(dict(qual=qual, error=("CHECKER-ERROR " + errs[0]["error"]) if errs else None, results=[o for o in out if o["verdict"] != "error"],
                          paths=res["paths"], gen_s=round(gen_s, 2), fn=fn_meta, wall_s=round(time.time() - t0, 2), checker_error=bool(errs)), default=str))


def _work(task):
    """(kept for the developer runner) generate + discharge one shard in this process"""
    qual, shard, nshards, prop, timeout_ms, tier = task
    t0 = time.time()
    try:
        obs, con, src, res = _generate(qual)
        if res["error"]:
            return dict(qual=qual, shard=shard, error=res["error"], results=[], paths=0, gen_s=time.time() - t0)
        _G.update(obs=obs, con=con, prop=prop, timeout_ms=timeout_ms, tier=tier)
        out = [_discharge_one(i) for i in range(len(obs)) if i % nshards == shard and (con is None or prop == "DEV" or obligations_for(prop, con, obs[i].name, obs[i].kind))]
        return dict(qual=qual, shard=shard, error=None, results=out, paths=res["paths"], gen_s=round(time.time() - t0, 2), fn={}, wall_s=round(time.time() - t0, 2))
    except Exception as ex:
        import traceback
        return dict(qual=qual, shard=shard, error="CHECKER-ERROR " + repr(ex) + "\n" + traceback.format_exc()[-1500:], results=[], paths=0, checker_error=True)


def cross_check(ob, d):
    """re-discharge with /usr/bin/cvc5 through SMT-LIB (thorough tier)."""
    import z3
    s = z3.Solver()
    for h in ob.hyps:
        s.add(h)
    s.add(z3.Not(ob.goal))
    txt = "(set-logic ALL)\n" + s.to_smt2()
    os.makedirs(OUT, exist_ok=True)
    path = os.path.join(OUT, f"x-{os.getpid()}.smt2")
    with open(path, "w") as f:
        f.write(txt)
    try:
        r = subprocess.run(["/usr/bin/cvc5", "--tlimit=8000", path], capture_output=True, text=True, timeout=15)
        ans = (r.stdout.strip().splitlines() or ["?"])[0]
    except Exception as ex:
        ans = "error:" + type(ex).__name__
    finally:
        try:
            os.remove(path)
        except OSError:
            pass
    return ans


# --------------------------------------------------------------------------
# main entry
# --------------------------------------------------------------------------
HEAVY = {"Sequence._add": 14, "Sequence._validate_and_adjust_pulse": 4, "Sequence._delay": 4, "Sequence._target": 4, "Sequence._phase_shift": 2,
         "_Schedule.make_next_pulse_slot": 6, "_Schedule.add_target": 4, "_Schedule.add_pulse": 3,
         "_Schedule._find_add_delay": 3, "_Schedule.add_delay": 2, "_Schedule.enable_eom": 6, "_Schedule.disable_eom": 2}


def run_property(prop, tier="quick", seed=0):
    """phase 1: one generator process per function (parallel); phase 2: one pool of spawned solver processes for all obligations."""
    import pickle
    from concurrent.futures import ProcessPoolExecutor
    t_start = time.time()
    load_contracts()
    from pyvc.contracts import REGISTRY
    from props.table import PROPS
    spec = PROPS[prop]
    quals = [q for q, c in REGISTRY.items() if prop in c.props and not c.inline and not c.trusted]
    lem = [f"lemma:{n}" for n in spec.get("lemmas", [])] + [f"rel:{n}" for n in spec.get("relations", [])]
    tasks = sorted(quals + lem, key=lambda q: -HEAVY.get(q, 1))
    os.makedirs(OUT, exist_ok=True)
    # the bounded stand-in runs concurrently (it is re-run with the verifier's counter-models as hints only if an obligation fails)
    import threading
    early = {}
    th = threading.Thread(target=lambda: early.update(r=run_standin(prop, tier, seed, hints=[])))
    th.start()
    procs = []
    for n, q in enumerate(tasks):
        gp = os.path.join(OUT, f"gen-{os.getpid()}-{n}.pkl")
        ep = gp + ".err"
        p = subprocess.Popen([sys.executable, "-m", "pyvc.driver", "--funcworker", q, prop, tier, "0", gp], stdout=subprocess.DEVNULL, stderr=open(ep, "w"),
                             cwd=VERIF, env=dict(os.environ), stdin=subprocess.DEVNULL)
        procs.append((p, q, gp, ep))
        while sum(1 for x in procs if x[0].poll() is None) >= 16:
            time.sleep(0.05)
    gens = []
    for p, q, gp, ep in procs:
        p.wait()
        try:
            gens.append(pickle.load(open(gp, "rb")))
        except Exception:
            gens.append(dict(qual=q, error="CHECKER-ERROR generator produced no result: " + open(ep).read()[-800:], jobs=[], paths=0, checker_error=True))
        for f_ in (gp, ep):
            try:
                os.remove(f_)
            except OSError:
                pass
    gen_wall = time.time() - t_start
    all_jobs = [j for g in gens for j in g.get("jobs", [])]
    out = []
    if all_jobs:
        with ProcessPoolExecutor(max_workers=16, mp_context=mp.get_context("spawn")) as ex:
            out = list(ex.map(_discharge_smt2, all_jobs, chunksize=max(1, min(8, len(all_jobs) // 64))))
    # second chance for obligations that came back without a verdict (timeouts under load must not turn into alarms): the few that are
    # left are re-posed with three times the budget while the pool is otherwise idle
    retry = [i for i, rec in enumerate(out) if rec.get("verdict") in ("unknown", "sat?") and not rec.get("known_finding")]
    if retry and len(retry) <= 48:
        jobs2 = [tuple(list(all_jobs[i][:6]) + [all_jobs[i][6] * 3] + list(all_jobs[i][7:])) for i in retry]
        with ProcessPoolExecutor(max_workers=min(16, len(jobs2)), mp_context=mp.get_context("spawn")) as ex:
            out2 = list(ex.map(_discharge_smt2, jobs2))
        for i, rec2 in zip(retry, out2):
            rec2["retried"] = True
            if rec2.get("verdict") in ("unsat", "sat") or out[i].get("verdict") == "unknown":
                rec2["time_s"] = round(rec2.get("time_s", 0) + out[i].get("time_s", 0), 3)
                out[i] = rec2
    by_q = {}
    for job, rec in zip(all_jobs, out):
        by_q.setdefault(job[8] or job[1].split("/")[0] + "/" + job[1].split("/")[1], []).append(rec)
    results = []
    for g in gens:
        key = g["qual"] if not (g["qual"].startswith("lemma:") or g["qual"].startswith("rel:")) else None
        pre = ("lemma/" + g["qual"][6:]) if g["qual"].startswith("lemma:") else ("rel/" + g["qual"][4:])
        recs = by_q.get(g["qual"], []) if key else [r for job, r in zip(all_jobs, out) if job[1].startswith(pre)]
        errs = [r for r in recs if r["verdict"] == "error"]
        results.append(dict(qual=g["qual"], error=g.get("error") or (("CHECKER-ERROR " + errs[0]["error"]) if errs else None),
                            results=[r for r in recs if r["verdict"] != "error"], paths=g.get("paths", 0), gen_s=g.get("gen_s"), fn=g.get("fn"),
                            checker_error=g.get("checker_error") or bool(errs)))
    if spec.get("ownership"):
        # frame / ownership obligations (pyvc.ownership): exact facts about the source text, one per function of the anchored files
        from pyvc import ownership
        t_o = time.time()
        try:
            own = ownership.analyse(REPO, spec["ownership"])
            recs = [dict(name=o["name"], verdict="unsat" if o["ok"] else "sat", time_s=0.0, tried=["ownership"], reason=o["detail"], backend="ast-ownership",
                         goal=o["detail"]) for o in own]
            results.append(dict(qual="own:" + ",".join(spec["ownership"])[:60], error=None if recs else "CHECKER-ERROR ownership pass found no function", results=recs, paths=0,
                                gen_s=round(time.time() - t_o, 2), fn=dict(qual="ownership pass", file="; ".join(spec["ownership"]), functions=len(recs)), checker_error=not recs))
        except SyntaxError as ex:
            results.append(dict(qual="own:*", error="OUT-OF-SUBSET source does not parse: " + repr(ex)[:200], results=[], paths=0, fn=None, checker_error=False))
    spec = dict(spec, gen_wall_s=round(gen_wall, 1))
    if tier == "thorough":
        # CPython cross-check of the encoding (pyvc/xcheck.py): validates the generator, decides nothing about the property
        try:
            xr = subprocess.run([sys.executable, "-m", "pyvc.xcheck", "--n", "12", "--seed", str(seed)], capture_output=True, text=True, cwd=VERIF, timeout=1500, env=dict(os.environ))
            xs = json.loads([ln for ln in xr.stdout.splitlines() if ln.startswith("{")][-1])
            spec["cpython_crosscheck"] = xs
            if xr.returncode != 0:
                results.append(dict(qual="xcheck", error="CHECKER-ERROR the symbolic semantics exclude what CPython did: " + json.dumps(xs.get("disagreements"))[:600],
                                    results=[], paths=0, fn=None, checker_error=True))
        except Exception as ex:  # noqa
            spec["cpython_crosscheck"] = {"error": repr(ex)[:200]}
    th.join()
    return assemble(prop, tier, seed, spec, quals, lem, results, t_start, early.get("r"))


def assemble(prop, tier, seed, spec, quals, lem, results, t_start, early_standin=None):
    from pyvc.contracts import REGISTRY
    from pyvc import findings
    from contracts.lib import AXIOMS
    errors = [r for r in results if r["error"]]
    obs = [o for r in results for o in r["results"]]
    fns = [r["fn"] for r in results if r.get("fn")]
    discharged = [o for o in obs if o["verdict"] == "unsat"]
    failed = [o for o in obs if o["verdict"] != "unsat"]
    lines, violations, undecided, known = [], [], [], []
    status = 0
    os.makedirs(os.path.join(OUT, "replays"), exist_ok=True)
    for o in failed:
        if o.get("known_finding") and o.get("outside_class") == "unsat":
            known.append(o)
            continue
        if o["verdict"] == "sat" or o.get("known_finding"):
            violations.append(o)
        else:
            undecided.append(o)
    # An obligation whose clause was discharged on the unchanged tree (committed baseline, /verif/baseline/<prop>.json) and is not discharged
    # now is reported as a violation of that named obligation even when the solver gives no definite counter-model ("unknown" / candidate
    # model only): the stand-in below still tries to find a concrete replay; without one the line ends in no-failing-input-found.
    # Obligations of clauses the baseline does not know (new paths / new functions) stay UNDECIDED.
    base_keys = load_baseline(prop)
    regressed = [o for o in undecided if clause_key(o["name"]) in base_keys]
    for o in regressed:
        o["regressed"] = True
    violations += regressed
    undecided = [o for o in undecided if not o.get("regressed")]
    # bounded stand-in / replay harness on the real tree (also the source of concrete replays)
    hints = [o.get("model") for o in violations + undecided if o.get("model")]
    standin = early_standin if (early_standin is not None and not hints and not (violations or undecided)) else None
    if standin is None:
        standin = run_standin(prop, tier, seed, hints=hints)
        if early_standin and early_standin.get("failures"):
            standin.setdefault("failures", []).extend(early_standin["failures"])
    kf_lines = findings.report_known(prop, known, standin)
    lines += kf_lines
    replay_path = None
    new_failures = [f for f in standin.get("failures", []) if not f.get("known")]
    if new_failures:
        replay_path = os.path.join(OUT, "replays", f"{prop}-standin.json")
        with open(replay_path, "w") as f:
            json.dump(dict(property=prop, status="replayed", failures=new_failures[:5],
                           obligations=[dict(name=o["name"], verdict=o["verdict"], model=o.get("model")) for o in (violations + undecided)[:10]]), f, indent=1, default=str)
    if violations or new_failures:
        status = 1
        if replay_path is None:
            replay_path = os.path.join(OUT, "replays", f"{prop}-{hashlib.sha1(violations[0]['name'].encode()).hexdigest()[:10]}.json")
            with open(replay_path, "w") as f:
                json.dump(dict(property=prop, status="no-failing-input-found",
                               obligations=[dict(name=o["name"], verdict=o["verdict"], reason=o.get("reason"), model=o.get("model"), goal=o.get("goal"),
                                                 known_finding=o.get("known_finding"), outside_class=o.get("outside_class")) for o in violations[:10]],
                               tried=standin.get("summary")), f, indent=1, default=str)
            lines.append(f"VIOLATION property={prop} replay={replay_path} no-failing-input-found")
        else:
            lines.append(f"VIOLATION property={prop} replay={replay_path}")
        for o in violations[:8]:
            lines.append(f"  failed obligation: {o['name']} ({o['verdict']}{', discharged on the unchanged tree' if o.get('regressed') else ''})")
    elif undecided:
        status = 2
        for o in undecided[:8]:
            lines.append(f"UNDECIDED property={prop} obligation={o['name']} reason={o.get('reason', '')}")
    oos = [e for e in errors if str(e.get("error", "")).startswith("OUT-OF-SUBSET")]
    errors = [e for e in errors if e not in oos]
    if oos:
        # an edit moved a function under contract out of the verifiable subset: undecided (the stand-in above had its chance to find a replay)
        status = 2 if status == 0 else status
        for e in oos[:5]:
            lines.append(f"UNDECIDED property={prop} obligation={e['qual']}/* reason={e['error'][:300]}")
    if errors:
        status = 3 if status == 0 else status
        for e in errors[:5]:
            lines.append(f"CHECKER-ERROR property={prop} function={e['qual']} {e['error'][:400]}")
    if not obs and not errors:
        status = 3
        lines.append(f"CHECKER-ERROR property={prop} zero obligations")
    def _dead(o):
        con_ = REGISTRY.get(o["name"].split("/")[0])
        return con_ is not None and any(t in o["name"] for t in getattr(con_, "dead_paths", ()))
    vac = [o for o in obs if o.get("hyps_sat") == "unsat" and not _dead(o)]
    if vac:
        status = 3 if status == 0 else status
        lines.append(f"CHECKER-ERROR property={prop} vacuous hypotheses in {vac[0]['name']}")
    trusted = sorted({f"{c.qual}: {c.note}" for c in REGISTRY.values() if c.trusted and (prop in c.props)})
    inl = sorted({c.qual for c in REGISTRY.values() if c.inline})
    ev = {
        "property_id": prop, "tier": tier, "seed": seed, "level": spec.get("level", "proof"),
        "coverage": {
            "obligations": len(obs) - len(known), "discharged": len(discharged),
            "checker_cmd": f"./check {prop} --tier {tier}",
            "trusted_base": ["CPython ast", "z3 5.1.0 (python3-vt)", "pyvc VC generator (/verif/pyvc)"] + (["cvc5 1.0.3 cross-check"] if tier == "thorough" else []),
            "functions_under_contract": fns,
            "lemmas": lem,
            "by_backend": {"z3": sum(1 for o in discharged if o.get("backend") != "ast-ownership"), "ast-ownership": sum(1 for o in discharged if o.get("backend") == "ast-ownership"),
                           "cvc5_rechecked": sum(1 for o in obs if o.get("cvc5")),
                           "cvc5_agree": sum(1 for o in obs if o.get("cvc5") == "unsat")},
            "solver_time_s": round(sum(o["time_s"] for o in obs), 2),
            "ladder": {k: sum(1 for o in discharged if (o.get("tried") or ["full"])[-1] == k) for k in ("full", "quantifier-free-hyps", "sliced", "sliced-seed11", "sliced-seed23", "full-long", "seed7")},
            "samples": [dict(name=o["name"], verdict=o["verdict"], goal_head=o.get("smt_head", "")) for o in obs[:4]],
            "vacuity": {"hyps_checked": sum(1 for o in obs if "hyps_sat" in o), "hyps_sat": sum(1 for o in obs if o.get("hyps_sat") in ("sat", "qf-sat")),
                        "hyps_unknown": sum(1 for o in obs if o.get("hyps_sat") == "unknown")},
            "known_findings": sorted({o["known_finding"] for o in known}),
            "baseline_clauses": len(base_keys),
            **({"cpython_crosscheck": spec["cpython_crosscheck"]} if spec.get("cpython_crosscheck") else {}),
            "not_discharged": [dict(name=o["name"], verdict=o["verdict"]) for o in failed if o not in known][:20],
            "trusted_contracts": trusted, "inlined_accessors": inl,
            "axioms": [f"{n}: {w}" for n, _, w in AXIOMS],
            "bounded_standins": standin.get("summary", {}),
            "clauses_not_decided": spec.get("not_decided", []),
            "evaluations": standin.get("summary", {}).get("evaluations", 0),
            "distinct_nontrivial": standin.get("summary", {}).get("distinct_nontrivial", 0),
            "rule": standin.get("summary", {}).get("rule", ""),
            **({"explanation": spec["explanation"]} if spec.get("explanation") else {}),
        },
        "assumptions": spec.get("assumptions", []) + ["A-REAL floats as reals", "A-WARN warnings do not raise", "A-IMMUT cached/frozen objects are not mutated",
                                                      "A-TYPES annotated types hold", "termination not verified"],
        "wall_s": round(time.time() - t_start, 2),
        "violations": len(violations) + len(new_failures),
    }
    if os.environ.get("VERIF_WRITE_BASELINE") and status == 0:
        # (maintainer action on the unchanged tree only) record which clauses are discharged
        os.makedirs(os.path.join(VERIF, "baseline"), exist_ok=True)
        keys = sorted({clause_key(o["name"]) for o in discharged})
        bad = {clause_key(o["name"]) for o in failed}
        with open(os.path.join(VERIF, "baseline", f"{prop}.json"), "w") as f:
            json.dump({"property": prop, "discharged_clauses": [k for k in keys if k not in bad]}, f, indent=0)
    if not os.environ.get("VERIF_NO_EVIDENCE"):     # (developer runs against scratch trees do not overwrite evidence)
        os.makedirs(os.path.join(VERIF, "evidence"), exist_ok=True)
        with open(os.path.join(VERIF, "evidence", f"{prop}.json"), "w") as f:
            json.dump(ev, f, indent=1, default=str)
    print(f"{prop}: functions={len(quals)} lemmas={len(lem)} obligations={len(obs)} discharged={len(discharged)} known-findings={len(known)} "
          f"violations={len(violations)} undecided={len(undecided)} errors={len(errors)} standin-evals={standin.get('summary', {}).get('evaluations', 0)} "
          f"wall={ev['wall_s']}s")
    for ln in lines:
        print(ln)
    return status


def run_standin(prop, tier, seed, hints):
    """Bounded stand-in + replay vehicle: concrete contract evaluation on the real tree under /venv/bin/python."""
    script = os.path.join(VERIF, "replay", "harness.py")
    if not os.path.exists(script):
        return {}
    os.makedirs(OUT, exist_ok=True)
    hint_file = os.path.join(OUT, f"hints-{prop}.json")
    with open(hint_file, "w") as f:
        json.dump(hints, f, default=str)
    env = dict(os.environ)
    env["PYTHONPATH"] = f"{REPO}/pulser-core:{REPO}/pulser-simulation"
    env["MPLBACKEND"] = "Agg"
    try:
        r = subprocess.run([TREE_PY, script, prop, "--tier", tier, "--seed", str(seed), "--hints", hint_file],
                           capture_output=True, text=True, timeout=900 if tier == "quick" else 3600, env=env, cwd="/tmp")
        last = [ln for ln in r.stdout.splitlines() if ln.startswith("{")]
        if not last:
            return {"summary": {"error": (r.stderr or r.stdout)[-800:]}}
        return json.loads(last[-1])
    except subprocess.TimeoutExpired:
        return {"summary": {"error": "stand-in timeout"}}


def main(argv):
    if argv and argv[0] == "--funcworker":
        funcworker(argv[1], argv[2], argv[3], int(argv[4]), argv[5] if len(argv) > 5 else None)
        return 0
    prop = argv[0]
    tier = os.environ.get("VERIF_TIER", "quick")
    if "--tier" in argv:
        tier = argv[argv.index("--tier") + 1]
    seed = int(os.environ.get("VERIF_SEED", "0") or 0)
    if "--replay" in argv:
        return replay(prop, argv[argv.index("--replay") + 1])
    return run_property(prop, tier, seed)


def replay(prop, path):
    with open(path) as f:
        data = json.load(f)
    print(json.dumps({k: data[k] for k in data if k != "failures"}, indent=1)[:2000])
    script = os.path.join(VERIF, "replay", "harness.py")
    env = dict(os.environ)
    env["PYTHONPATH"] = f"{REPO}/pulser-core:{REPO}/pulser-simulation"
    r = subprocess.run([TREE_PY, script, prop, "--replay", path], env=env, cwd="/tmp")
    return r.returncode


if __name__ == "__main__":
    sys.exit(main(sys.argv[1:]))
