"""Contract registry and clause types."""
from __future__ import annotations

import z3

from .core import I, fresh, uf


# --------------------------------------------------------------------------
# clause types
# --------------------------------------------------------------------------
class Q:
    """Universally quantified clause:  forall vs. premise(vs) -> concl(vs).

    body(*vs) -> (premise, concl)   concl may be a z3 Bool or an Al.
    pats(*vs) -> list of pattern terms (for the assumed form).
    split: list of terms; when *proving*, the bound variable vs[0] is also
           instantiated at each split term (substitute + simplify) as separate
           sub-obligations, and the generic obligation gets vs[0] != t.
    """

    def __init__(self, sorts, body, pats=None, split=None, names=None):
        self.sorts, self.body, self.pats, self.split = sorts, body, pats, split or []
        self.names = names


class Al:
    """x is a multiple of c  (clock alignment), carried by witness (DESIGN 2.4)."""

    def __init__(self, c, x):
        self.c, self.x = c, x


class Bridge:
    """A clause proved in one form and assumed (at call sites) in another.

    Sound only if prove-form implies assume-form up to skolem functions; each use
    states its justification and is listed in the evidence."""

    def __init__(self, prove, assume, why):
        self.prove, self.assume, self.why = prove, assume, why


QF = uf("QF", I, I, I)   # global witness function: Al(c,x) is assumed as x == c*QF(c,x)


def al_assume(al):
    return al.x == al.c * QF(al.c, al.x)


def _witness(c, x, defs):
    """Decompose x over + - numerals ite and k*t ; atoms t -> QF(c,t)."""
    x0 = x
    if defs:
        for _ in range(4):
            x2 = z3.substitute(x, *defs)
            if x2.eq(x):
                break
            x = x2
    x = _push_select(x)

    def w(t):
        if z3.is_int_value(t):
            if t.as_long() == 0:
                return z3.IntVal(0)
            return None
        if z3.is_add(t):
            ws = [w(a) for a in t.children()]
            return None if any(a is None for a in ws) else z3.Sum(ws)
        if z3.is_sub(t):
            ws = [w(a) for a in t.children()]
            if any(a is None for a in ws):
                return None
            r = ws[0]
            for a in ws[1:]:
                r = r - a
            return r
        if z3.is_mul(t):
            ch = t.children()
            if len(ch) == 2 and z3.is_int_value(ch[0]):
                a = w(ch[1])
                return None if a is None else ch[0] * a
            if len(ch) == 2 and z3.is_int_value(ch[1]):
                a = w(ch[0])
                return None if a is None else ch[1] * a
            # c * q  literally
            if len(ch) == 2 and ch[0].eq(c):
                return ch[1]
            if len(ch) == 2 and ch[1].eq(c):
                return ch[0]
        if z3.is_app_of(t, z3.Z3_OP_ITE):
            b, a1, a2 = t.children()
            w1, w2 = w(a1), w(a2)
            return None if w1 is None or w2 is None else z3.If(b, w1, w2)
        if z3.is_app_of(t, z3.Z3_OP_UMINUS):
            a = w(t.children()[0])
            return None if a is None else -a
        return QF(c, t)

    return x, w(x)


def _push_select(t):
    """simplify select-over-store with syntactically equal indices."""
    return z3.simplify(t, som=False, arith_lhs=False, sort_sums=False, flat=False,
                       elim_ite=False, pull_cheap_ite=False, push_ite_arith=False,
                       mul_to_power=False, arith_ineq_lhs=False, blast_eq_value=False,
                       elim_and=False, local_ctx=False, hoist_mul=False) if False else _sel_simp(t)


def _sel_simp(t):
    # bottom-up: Select(Store(a,i,v), j) -> v if i eq j
    if not z3.is_app(t):
        return t
    ch = [_sel_simp(c) for c in t.children()]
    if z3.is_select(t):
        a, j = ch
        while z3.is_store(a):
            a0, i, v = a.children()
            if i.eq(j) or z3.simplify(i == j).eq(z3.BoolVal(True)):
                return v
            if z3.simplify(i == j).eq(z3.BoolVal(False)):
                a = a0
                continue
            break
        return z3.Select(a, j)
    if ch:
        try:
            return t.decl()(*ch)
        except Exception:
            return t
    return t


def al_goal(al, defs=()):
    """Sufficient goal for Al: x == c * witness.  Returns (goal, used_witness:bool)."""
    x, wit = _witness(al.c, al.x, list(defs))
    if wit is None:
        return (al.x % al.c == 0), False
    return (x == al.c * wit), True


# --------------------------------------------------------------------------
# contracts
# --------------------------------------------------------------------------
class LoopSpec:
    def __init__(self, inv, modifies=(), havoc_types=None, unroll=False):
        self.inv, self.modifies, self.havoc_types, self.unroll = inv, tuple(modifies), dict(havoc_types or {}), unroll


class Contract:
    def __init__(self, file, qual, *, params=None, result=None, requires=None, ensures=None,
                 raises=None, raises_iff=True, may_raise=(), modifies=None, exc_safe=False,
                 inline=False, loops=None, props=(), ghost=None, self_cls=None, trusted=False,
                 note="", dispatch=None, spec_defs=None, lemmas=None, exc_safe_if=None, closure=None, slices=None, dead_paths=()):
        self.file, self.qual = file, qual
        self.params = params or {}
        self.result = result
        self.requires = requires or (lambda c: [])
        self.ensures = ensures or (lambda c: [])
        self.raises = raises or {}
        self.raises_iff = raises_iff
        self.may_raise = tuple(may_raise)     # exceptions that may be raised with unspecified condition
        self.modifies = modifies or {}
        self.exc_safe = exc_safe
        self.closure = closure or {}        # free variables of a nested function: name -> type | ('nested', qualname)
        self.exc_safe_if = exc_safe_if      # condition under which a raising call leaves the heap unchanged (assumed at call sites when exc_safe itself is a known finding)
        self.inline = inline
        self.loops = loops or {}
        self.props = tuple(props)             # property ids this contract serves
        self.trusted = trusted                # assumed, never verified against a body
        self.note = note
        self.dispatch = dispatch
        self.spec_defs = spec_defs or (lambda c: [])
        self.lemmas = lemmas or (lambda c: [])   # [(lemma name, instance clause)] assumed when verifying the body
        self.dead_paths = tuple(dead_paths)   # path tags known to be infeasible (e.g. a `# pragma: no cover` fall-through): the vacuity guard does not flag them
        self.slices = slices or {}           # proof hint only: clause keyword -> substrings of the hypothesis names its 'sliced' attempt keeps (dropping hypotheses is always sound)

    @property
    def key(self):
        return (self.file, self.qual)


REGISTRY: dict[str, Contract] = {}   # 'Class.method' or 'func' -> Contract


def contract(file, qual, **kw):
    c = Contract(file, qual, **kw)
    REGISTRY[qual] = c
    return c


def inline(file, qual, **kw):
    c = Contract(file, qual, inline=True, **kw)
    REGISTRY[qual] = c
    return c


class Ctx:
    """What a contract lambda sees."""

    def __init__(self, args, old, new, res=None, st=None, j=None, extra=None):
        self.a = args          # dict name -> Value
        self.old, self.new = old, new
        self.res = res
        self.st = st
        self.j = j
        self.x = extra or {}

    def __getattr__(self, name):
        a = self.__dict__.get("a", {})
        if name in a:
            return a[name]
        raise AttributeError(name)


LEMMAS = {}   # name -> (build, text)


def lemma(name, build, text):
    """build() -> (hyps: [(name, clause)], concl: Q, skolem_facts(*skolems) -> [z3])
    The lemma is proved for fresh generic symbols; users assume `And(hyps) => concl` instances."""
    LEMMAS[name] = (build, text)
