"""pyvc core: sorts, value wrappers, shapes registry, symbolic state.

Runs under python3-vt (z3-solver).  Never imports the repository.
"""
from __future__ import annotations

import itertools
import z3

# --------------------------------------------------------------------------
# sorts
# --------------------------------------------------------------------------
Ref = z3.DeclareSort("Ref")       # every instance of a repository class
PStr = z3.DeclareSort("PStr")     # python str (only equality is modelled)
Qid = z3.DeclareSort("Qid")       # qubit id
QSet = z3.ArraySort(Qid, z3.BoolSort())
I, R, B = z3.IntSort(), z3.RealSort(), z3.BoolSort()

_fresh = itertools.count()


def fresh(prefix, sort):
    return z3.Const(f"{prefix}!{next(_fresh)}", sort)


def sort_of(ty):
    if ty == "int":
        return I
    if ty == "real":
        return R
    if ty == "bool":
        return B
    if ty == "opaque":
        return Ref
    if ty == "str":
        return PStr
    if ty == "qset":
        return QSet
    if ty == "qid":
        return Qid
    if isinstance(ty, tuple) and ty[0] == "ref":
        return Ref
    raise TypeError(f"no sort for type {ty!r}")


PI = z3.Real("PI")   # symbolic constant for math.pi / np.pi (A-REAL); axiom A-PI: 3 < PI < 4


_str_consts = {}


def str_const(s):
    """Distinct constant for a python string literal."""
    if s not in _str_consts:
        _str_consts[s] = z3.Const("str:" + s, PStr)
    return _str_consts[s]


def str_axioms():
    cs = list(_str_consts.values())
    return [z3.Distinct(*cs)] if len(cs) > 1 else []


# --------------------------------------------------------------------------
# classes / shapes
# --------------------------------------------------------------------------
class Shape:
    """Declared fields of a repository class.

    fields: name -> (type, mutable)
      type: 'int' 'real' 'bool' 'str' 'qset' ('ref',C) ('opt',T) ('list',T)
            'slotty' (Union[Pulse,str] of _TimeSlot.type)
    """

    def __init__(self, name, bases=(), fields=None, cid=None):
        self.name, self.bases, self.fields = name, tuple(bases), dict(fields or {})
        self.cid = cid


SHAPES: dict[str, Shape] = {}
_cid = itertools.count(1)


def shape(_name, bases=(), **fields):
    name = _name
    fs = {}
    for b in bases:
        fs.update(SHAPES[b].fields)
    for k, v in fields.items():
        if not (isinstance(v, tuple) and len(v) == 2 and isinstance(v[1], bool)):
            v = (v, False)
        fs[k] = v
    SHAPES[name] = Shape(name, bases, fs, next(_cid))
    return SHAPES[name]


def subclasses(name):
    out = {name}
    changed = True
    while changed:
        changed = False
        for s in SHAPES.values():
            if s.name not in out and any(b in out for b in s.bases):
                out.add(s.name)
                changed = True
    return out


def superclasses(name):
    out = [name]
    for b in SHAPES[name].bases if name in SHAPES else ():
        out += superclasses(b)
    return out


dyn_class = z3.Function("dyn_class", Ref, I)


def isinstance_term(ref, cls):
    ids = sorted(SHAPES[c].cid for c in subclasses(cls))
    return z3.Or(*[dyn_class(ref) == i for i in ids])


def field_owner(cls, fld):
    """The class (cls or a base) that declares fld -- used to name the UF/heap key."""
    for c in reversed(superclasses(cls)):
        if c in SHAPES and fld in SHAPES[c].fields:
            # first (most basic) class in the chain which has it
            pass
    # choose the most basic declaring class
    best = None
    for c in superclasses(cls):
        if c in SHAPES and fld in SHAPES[c].fields:
            best = c
    return best


_ufs = {}


def uf(name, *sorts):
    key = (name, tuple(s.sexpr() if hasattr(s, "sexpr") else str(s) for s in sorts))
    if key not in _ufs:
        _ufs[key] = z3.Function(name, *sorts)
    return _ufs[key]


# --------------------------------------------------------------------------
# values
# --------------------------------------------------------------------------
class Sym:
    """A symbolic scalar: z3 term + python-level type."""

    __slots__ = ("t", "ty")

    def __init__(self, t, ty):
        self.t, self.ty = t, ty

    def __repr__(self):
        return f"Sym({self.t}:{self.ty})"


class OptV:
    """Optional[T]: (is_none, val)."""

    __slots__ = ("none", "val")

    def __init__(self, none, val):
        self.none, self.val = none, val

    def __repr__(self):
        return f"Opt({self.none}?{self.val})"


class SlotTy:
    """_TimeSlot.type : Union[Pulse, str]; kind 0 target, 1 delay, 2 pulse."""

    __slots__ = ("kind", "pulse")

    def __init__(self, kind, pulse):
        self.kind, self.pulse = kind, pulse


class SeqV:
    """Immutable snapshot of a sequence: length term, array term, elem type.

    rev: iterate/index from the end.  lo/hi: optional sub-range (not used yet).
    """

    __slots__ = ("n", "arr", "ety", "rev")

    def __init__(self, n, arr, ety, rev=False):
        self.n, self.arr, self.ety, self.rev = n, arr, ety, rev

    def at(self, j):
        """j-th element in iteration order as a Value."""
        idx = (self.n - 1 - j) if self.rev else j
        return wrap(z3.Select(self.arr, idx), self.ety)


class ListLoc:
    """A list stored in a mutable field: heap keys '<C.f>.len' / '<C.f>.at'."""

    __slots__ = ("owner", "key", "ety")

    def __init__(self, owner, key, ety):
        self.owner, self.key, self.ety = owner, key, ety


class PyList:
    """A concrete-length python list/tuple/set literal built inside a function."""

    def __init__(self, items, kind="list"):
        self.items, self.kind = list(items), kind

    def __repr__(self):
        return f"Py{self.kind}{self.items}"


class BoundMethod:
    def __init__(self, selfv, cls, name):
        self.selfv, self.cls, self.name = selfv, cls, name


class FuncRef:
    """A repository function / class / builtin referenced by name."""

    def __init__(self, qual, kind="func"):
        self.qual, self.kind = qual, kind

    def __repr__(self):
        return f"<{self.kind} {self.qual}>"


class Closure:
    def __init__(self, fdef, env, owner_cls=None):
        self.fdef, self.env, self.owner_cls = fdef, env, owner_cls


class Opaque:
    """A value whose content is never an obligation (messages etc.)."""

    def __init__(self, what=""):
        self.what = what

    def __repr__(self):
        return f"<opaque {self.what}>"


def wrap(t, ty):
    """z3 term + type -> Value."""
    if ty == "slotty":
        raise TypeError("slotty needs two terms")
    return Sym(t, ty)


def is_ref_ty(ty):
    return isinstance(ty, tuple) and ty[0] == "ref"


def to_real(t):
    if z3.is_int(t):
        return z3.ToReal(t)
    return t


def zint(v):
    """python int/bool or Sym(int/bool) -> z3 Int."""
    if isinstance(v, bool):
        return z3.IntVal(1 if v else 0)
    if isinstance(v, int):
        return z3.IntVal(v)
    if isinstance(v, Sym):
        if v.ty == "int":
            return v.t
        if v.ty == "bool":
            return z3.If(v.t, 1, 0)
    raise TypeError(f"not an int: {v!r}")


def znum(v):
    """numeric python value or Sym -> (z3 term, 'int'|'real')."""
    if isinstance(v, bool):
        return z3.IntVal(1 if v else 0), "int"
    if isinstance(v, int):
        return z3.IntVal(v), "int"
    if isinstance(v, float):
        from fractions import Fraction
        fr = Fraction(repr(v)) if v == v and v not in (float('inf'), float('-inf')) else Fraction(0)
        return z3.RealVal(str(fr.numerator)) / z3.RealVal(str(fr.denominator)) \
            if fr.denominator != 1 else z3.RealVal(str(fr.numerator)), "real"
    if isinstance(v, Sym):
        if v.ty in ("int", "real"):
            return v.t, v.ty
        if v.ty == "bool":
            return z3.If(v.t, 1, 0), "int"
    raise TypeError(f"not numeric: {v!r}")


# --------------------------------------------------------------------------
# heap + state
# --------------------------------------------------------------------------
class Heap:
    """Mutable fields as arrays Ref -> T.  Functional: copy on write."""

    def __init__(self, arrays=None, tag="H"):
        self.arrays = dict(arrays or {})
        self.tag = tag

    def copy(self):
        return Heap(self.arrays, self.tag)

    def _sort_for(self, key):
        return HEAP_SORTS[key]

    def get(self, key):
        if key not in self.arrays:
            self.arrays[key] = z3.Const(f"{self.tag}.{key}", HEAP_SORTS[key])
        return self.arrays[key]

    def set(self, key, arr):
        self.arrays[key] = arr

    def read(self, key, ref):
        return z3.Select(self.get(key), ref)

    def write(self, key, ref, val):
        self.arrays[key] = z3.Store(self.get(key), ref, val)


HEAP_SORTS: dict[str, object] = {}


def declare_heap_fields():
    """Populate HEAP_SORTS from SHAPES (mutable fields only)."""
    HEAP_SORTS["$alloc"] = z3.ArraySort(Ref, B)
    for s in SHAPES.values():
        for f, (ty, mut) in s.fields.items():
            if not mut:
                continue
            owner = field_owner(s.name, f)
            key = f"{owner}.{f}"
            if isinstance(ty, tuple) and ty[0] == "list":
                HEAP_SORTS[key + ".len"] = z3.ArraySort(Ref, I)
                HEAP_SORTS[key + ".at"] = z3.ArraySort(Ref, z3.ArraySort(I, sort_of(ty[1])))
            elif isinstance(ty, tuple) and ty[0] == "opt":
                HEAP_SORTS[key + "?"] = z3.ArraySort(Ref, B)
                HEAP_SORTS[key] = z3.ArraySort(Ref, sort_of(ty[1]))
            elif isinstance(ty, tuple) and ty[0] == "map":
                # dict field: key sort -> value ; domain
                HEAP_SORTS[key + ".dom"] = z3.ArraySort(Ref, z3.ArraySort(sort_of(ty[1]), B))
                HEAP_SORTS[key + ".map"] = z3.ArraySort(Ref, z3.ArraySort(sort_of(ty[1]), sort_of(ty[2])))
            else:
                HEAP_SORTS[key] = z3.ArraySort(Ref, sort_of(ty))


class State:
    def __init__(self, env=None, heap=None, pc=None, defs=None):
        self.env = dict(env or {})
        self.heap = heap if heap is not None else Heap()
        self.pc = list(pc or [])          # list of z3 Bool
        self.pcn = []                     # parallel list of names (None for anonymous facts)
        self.defs = list(defs or [])      # (lhs, rhs) definitional equalities for fresh objects
        self.tags = []                    # branch labels for obligation names
        self.exc = None                   # currently handled exception (for bare raise)

    def copy(self):
        env = self.env
        if any(isinstance(v, PyList) or type(v).__name__ == "PyDict" for v in env.values()):
            # local mutable containers must not be shared between sibling paths
            memo, env = {}, dict(env)
            for k, v in list(env.items()):
                if isinstance(v, PyList):
                    if id(v) not in memo:
                        memo[id(v)] = PyList(list(v.items), v.kind)
                    env[k] = memo[id(v)]
                elif type(v).__name__ == "PyDict":
                    if id(v) not in memo:
                        memo[id(v)] = type(v)(dict(v.d))
                    env[k] = memo[id(v)]
        s = State(env, self.heap.copy(), self.pc, self.defs)
        s.pcn = list(self.pcn)
        s.tags = list(self.tags)
        s.exc = self.exc
        if getattr(self, "_qdoms", None) is not None:
            s._qdoms = dict(self._qdoms)
        if getattr(self, "writes", None):
            s.writes = list(self.writes)
        if getattr(self, "init_done", None):
            s.init_done = set(self.init_done)
        return s

    def assume(self, *conds, name=None):
        while len(self.pcn) < len(self.pc):
            self.pcn.append(None)
        for c in conds:
            if c is True or (z3.is_true(c) if z3.is_expr(c) else False):
                continue
            self.pc.append(c)
            self.pcn.append(name)


class OutOfSubset(Exception):
    def __init__(self, what, node=None):
        self.what, self.node = what, node
        line = getattr(node, "lineno", "?")
        super().__init__(f"OUT-OF-SUBSET {what} at line {line}")
