#!/bin/bash
# usage: tools/mut.sh <file-rel> <python-expr old> <new> <qualnames...>   (dev helper; scratch copy under /tmp, removed afterwards)
set -e
D=$(mktemp -d /tmp/pyvc-mut.XXXX)
mkdir -p $D/pulser-core $D/pulser-simulation
cp -r /repo/pulser-core/pulser $D/pulser-core/
cp -r /repo/pulser-simulation/pulser_simulation $D/pulser-simulation/; cp /repo/VERSION.txt $D/ 2>/dev/null
python3 - "$D/$1" "$2" "$3" <<'PY'
import sys
p,old,new=sys.argv[1:4]
s=open(p).read()
assert s.count(old)>=1, "pattern not found"
s=s.replace(old,new,1)
open(p,'w').write(s)
PY
shift 3
PYVC_ROOT=$D python3-vt -m pyvc.pdev -k 4 "$@" 2>&1 | grep -v "^  File\|^    " | tail -12
rm -rf $D
