#!/usr/bin/env python3
"""refresh the generated seed table in DESIGN.md (between the SEEDTABLE markers)"""
import os, subprocess
V = os.path.dirname(os.path.dirname(os.path.abspath(__file__)))
p = os.path.join(V, "DESIGN.md")
s = open(p).read()
a, b = s.index("<!-- SEEDTABLE-BEGIN -->"), s.index("<!-- SEEDTABLE-END -->")
t = subprocess.check_output(["python3", os.path.join(V, "tools", "seedtable.py")], text=True)
open(p, "w").write(s[:a] + "<!-- SEEDTABLE-BEGIN -->\n" + t + s[b:])
