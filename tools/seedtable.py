#!/usr/bin/env python3
"""print the DESIGN 9.5 table from seeded/*/meta.json"""
import glob, json, os, re
V = os.path.dirname(os.path.dirname(os.path.abspath(__file__)))
rows = []
for mp in sorted(glob.glob(os.path.join(V, "seeded", "*", "meta.json"))):
    m = json.load(open(mp))
    what = m.get("summary") or ""
    if not what:
        for ln in m.get("needs_to_manifest", []):
            if re.search(r"[Cc]hange|Site|bug|Bug", ln):
                what = ln
                break
        what = what or (m.get("needs_to_manifest") or [""])[0]
    what = re.sub(r"\s+", " ", what).strip().replace("|", "/")[:170]
    caught = m.get("caught_by")
    how = (m.get("how_caught") or "").replace("|", "/")
    how = re.sub(r"\[C\d\d: functions.*", "", how).strip()[:230]
    rows.append((m["id"], m["property"], what, ("caught: " if caught else "") + how))
print("| change | property | what it changes | result |")
print("|---|---|---|---|")
for r in rows:
    print("| " + " | ".join(r) + " |")
