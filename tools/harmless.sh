#!/bin/bash
# tools/harmless.sh <props...>: run checks against a scratch copy with behaviour-preserving edits (renamed non-loop locals, negated if/else with swapped
# branches, an alias local, merged expressions, comments / blank lines): every check must still exit 0 (no alarm on code where the property holds)
D=$(mktemp -d /tmp/harmless.XXXX)
mkdir -p $D/pulser-core $D/pulser-simulation
cp -r /repo/pulser-core/pulser $D/pulser-core/
cp -r /repo/pulser-simulation/pulser_simulation $D/pulser-simulation/; cp /repo/VERSION.txt $D/ 2>/dev/null
python3 - "$D" <<'PY'
import sys, re
D = sys.argv[1]
p = D + "/pulser-core/pulser/sequence/_schedule.py"
s = open(p).read()
def rep(old, new, cnt=1):
    global s
    assert s.count(old) >= 1, old
    s = s.replace(old, new) if cnt == 0 else s.replace(old, new, cnt)
# _find_add_delay: rename two non-loop locals
a = s.index("    def _find_add_delay("); b = s.index("    def _get_last_pulse_phase(")
body = s[a:b].replace("this_chobj", "other_chobj").replace("in_eom_mode = self[ch].in_eom_mode()", "eom_now = self[ch].in_eom_mode()").replace("in_eom_mode=in_eom_mode", "in_eom_mode=eom_now")
s = s[:a] + body + s[b:]
# add_delay: alias local, negated condition with swapped branches, extra comments
rep('''        last = self[channel][-1]
        ti = last.tf
        tf = ti + self[channel].channel_obj.validate_duration(duration)
        self._check_duration(tf)
        if (
            self[channel].in_eom_mode()
            and self[channel].eom_blocks[-1].detuning_off != 0
        ):
            phase = self._get_last_pulse_phase(channel)
            delay_pulse = Pulse.ConstantPulse(
                tf - ti, 0.0, self[channel].eom_blocks[-1].detuning_off, phase
            )
            self[channel].slots.append(
                _TimeSlot(delay_pulse, ti, tf, last.targets)
            )
        else:
            self[channel].slots.append(
                _TimeSlot("delay", ti, tf, last.targets)
            )
''', '''        # (refactored: same behaviour)
        ch_sched = self[channel]
        last = ch_sched[-1]
        ti = last.tf

        valid_duration = ch_sched.channel_obj.validate_duration(duration)
        tf = ti + valid_duration
        self._check_duration(tf)
        if not (
            ch_sched.in_eom_mode()
            and ch_sched.eom_blocks[-1].detuning_off != 0
        ):
            ch_sched.slots.append(_TimeSlot("delay", ti, tf, last.targets))
        else:
            phase = self._get_last_pulse_phase(channel)
            off = ch_sched.eom_blocks[-1].detuning_off
            delay_pulse = Pulse.ConstantPulse(tf - ti, 0.0, off, phase)
            ch_sched.slots.append(_TimeSlot(delay_pulse, ti, tf, last.targets))
''')
# add_target: merged expression
rep('''            retarget = cast(int, channel_obj.min_retarget_interval)
            elapsed = ti - self[channel].last_target()
            delta = cast(int, np.clip(retarget - elapsed, 0, retarget))
''', '''            retarget = cast(int, channel_obj.min_retarget_interval)
            since_last_target = ti - self[channel].last_target()
            remaining = retarget - since_last_target
            delta = cast(int, np.clip(remaining, 0, retarget))
''')
open(p, "w").write(s)
p = D + "/pulser-core/pulser/channels/base_channel.py"
s = open(p).read()
# validate_duration: nothing but a comment and a blank line at the top of the function body
i = s.index("    def validate_duration(")
j = s.index('"""', s.index('"""', i) + 3) + 3
s = s[:j] + "\n        # (comment inserted by the harmless-edit self-test)\n" + s[j:]
open(p, "w").write(s)
PY
[ $? -eq 0 ] || { echo "HARMLESS-EDIT-SCRIPT-FAILED"; rm -rf $D; exit 9; }
(cd $D && PYTHONPATH=$D/pulser-core:$D/pulser-simulation /venv/bin/python -c "import pulser.sequence._schedule, pulser.channels.base_channel" ) || { echo "edited tree does not import"; rm -rf $D; exit 9; }
for prop in "$@"; do
  out=$(PYVC_ROOT=$D VERIF_NO_EVIDENCE=1 /verif/check $prop --tier quick 2>&1); rc=$?
  echo "harmless $prop exit=$rc :: $(echo "$out" | grep -E "^$prop:|VIOLATION|UNDECIDED|CHECKER|failed obligation" | head -6 | tr '\n' '|' | cut -c1-700)"
done
rm -rf $D
