#!/bin/bash
# tools/seedrun.sh <patch.diff> <prop> [...]: apply to /repo, run checks, always revert
P=$1; shift
git -C /repo apply "$P" || { echo "patch does not apply"; exit 9; }
for prop in "$@"; do
  /verif/check $prop --tier quick 2>&1 | grep -v "^  File\|Warning" | head -14
  echo "exit=$?"
done
git -C /repo checkout -- .
git -C /repo status --short | head -3
