"""debug: python3-vt tools/ob.py <qual> <substring of obligation name> : try one obligation under several strategies"""
import sys, time
sys.path.insert(0, '/verif')
import z3
from pyvc.dev import load_contracts
load_contracts()
from pyvc.source import SourceIndex
from pyvc.contracts import REGISTRY
from pyvc.models import MODELS
from pyvc.vc import verify_function, _check
from contracts.lib import AXIOMS
src = SourceIndex('/repo').load_tree()
r = verify_function(src, REGISTRY[sys.argv[1]], MODELS, axioms=[f for _, f, _ in AXIOMS])
obs = [o for o in r['obligations'] if sys.argv[2] in o.name]
print(len(obs), 'matching')
ob = obs[int(sys.argv[3]) if len(sys.argv) > 3 else 0]
print(ob.name, len(ob.hyps), 'hyps')
names = ob.meta['hyp_names']
res, dt, s = _check(ob.hyps, ob.goal, 20000)
print('full', res, round(dt, 2))
if res == z3.unsat:
    s2 = z3.Solver(); s2.set('timeout', 20000)
    ps = []
    for i, h in enumerate(ob.hyps):
        p = z3.Bool(f'p{i}'); ps.append(p); s2.add(z3.Implies(p, h))
    s2.add(z3.Not(ob.goal))
    print(s2.check(*ps))
    core = s2.unsat_core()
    print('core size', len(core))
    for p in core:
        i = int(str(p)[1:]); print('  ', names[i], str(ob.hyps[i])[:150].replace('\n', ' '))
else:
    qf = [h for h in ob.hyps if not (z3.is_quantifier(h))]
    print('no top-level quantified hyps:', _check(qf, ob.goal, 20000)[:2])
    print("goal:", str(ob.goal)[:600])
