#!/bin/bash
# tools/seedmatrix.sh <seed id> <prop> [...]   -- run checks against a seeded change on a scratch copy (never touches /repo)
ID=$1; shift
D=$(mktemp -d /tmp/seedtree.XXXX)
mkdir -p $D/pulser-core $D/pulser-simulation
cp -r /repo/pulser-core/pulser $D/pulser-core/
cp -r /repo/pulser-simulation/pulser_simulation $D/pulser-simulation/; cp /repo/VERSION.txt $D/ 2>/dev/null
(cd $D && patch -p1 -s < /verif/seeded/$ID/patch.diff) || { echo "$ID PATCH-FAIL"; rm -rf $D; exit 9; }
for prop in "$@"; do
  out=$(PYVC_ROOT=$D VERIF_NO_EVIDENCE=1 /verif/check $prop --tier quick 2>&1); rc=$?
  echo "$ID $prop exit=$rc :: $(echo "$out" | grep -E "^$prop:|VIOLATION|UNDECIDED|CHECKER|failed obligation" | head -8 | tr "\n" "|" | cut -c1-900)"
done
rm -rf $D
