#!/bin/bash
# confirm every seed under /tmp/wt-*/seed_out: demo passes on HEAD, fails with patch, tree tests pass with patch
W=/tmp/wt-confirm
git -C /repo worktree remove --force $W 2>/dev/null
git -C /repo worktree add -q --detach $W HEAD
RES=/tmp/seed-confirm.txt; : > $RES
for d in /tmp/wt-*/seed_out/*/; do
  id=$(basename $d)
  [ -f $d/patch.diff ] || continue
  cd $W && git checkout -q -- . 
  export PULSER_TREE=$W PYTHONPATH=$W/pulser-core:$W/pulser-simulation MPLBACKEND=Agg PYTHONWARNINGS=ignore
  (cd /tmp && timeout 600 /venv/bin/python $d/demo.py >/dev/null 2>&1); clean=$?
  if ! git apply $d/patch.diff 2>/dev/null; then echo "$id APPLY-FAIL" >> $RES; continue; fi
  (cd /tmp && timeout 600 /venv/bin/python $d/demo.py >/dev/null 2>&1); patched=$?
  t=$(cd $W && timeout 900 /venv/bin/python -m pytest tests -q -p no:cacheprovider -n 6 -x 2>&1 | tail -1)
  echo "$id demo_clean=$clean demo_patched=$patched tests: $t" >> $RES
  git checkout -q -- .
done
git -C /repo worktree remove --force $W
echo DONE >> $RES
