#!/bin/bash
# tools/confirm_one.sh <seed dir>: demo passes on HEAD, fails with patch, tree tests pass with patch (own scratch worktree, removed afterwards)
d=$1; id=$(basename $d); W=/tmp/wtc-$id
git -C /repo worktree remove --force $W 2>/dev/null
git -C /repo worktree add -q --detach $W HEAD
export PULSER_TREE=$W PYTHONPATH=$W/pulser-core:$W/pulser-simulation MPLBACKEND=Agg PYTHONWARNINGS=ignore
(cd /tmp && timeout 600 /venv/bin/python $d/demo.py >/dev/null 2>&1); clean=$?
if ! git -C $W apply $d/patch.diff 2>/dev/null; then echo "$id APPLY-FAIL"; git -C /repo worktree remove --force $W; exit 1; fi
(cd /tmp && timeout 600 /venv/bin/python $d/demo.py >/dev/null 2>&1); patched=$?
t=$(cd $W && timeout 900 /venv/bin/python -m pytest tests -q -p no:cacheprovider -n ${CONFIRM_N:-6} 2>&1 | tail -1)
echo "$id demo_clean=$clean demo_patched=$patched tests: $t"
git -C /repo worktree remove --force $W
