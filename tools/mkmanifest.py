#!/usr/bin/env python3
"""Regenerates /verif/MANIFEST.json from the table below."""
import json, os
V = os.path.dirname(os.path.dirname(os.path.abspath(__file__)))
NOTE = ("Trusted base: CPython ast parser; z3 5.1.0; the pyvc VC generator (/verif/pyvc: encoder, heap model, loop/call rules); sidecar contracts in /verif/contracts "
        "(shapes, inlined accessors, contracts marked trusted and global axioms are listed by name in each evidence file); floats treated as reals (A-REAL); warnings do not raise; "
        "frozen/cached objects are not mutated; termination not verified. The concrete harness (replay/) is a bounded stand-in and replay vehicle, never counted as proved.")
CLAIMED = {
 "C01": ("proof", "Deductive (all inputs, unbounded): iff-contract of Channel.validate_duration (clock multiple, next multiple, >= min, identity on multiples), _check_duration, and the "
         "maximum-sequence-duration clause of every timeline writer (add_delay/add_pulse/add_target/wait_for_fall) proved by VCs generated from the real AST. One known finding "
         "(rounding past a non-clock-multiple max_duration) is proved absent outside its witness class. Pulse amplitude/detuning limits are covered by the bounded stand-in only "
         "until their numpy-axiom contracts are finished.", "DESIGN.md section 3 C01"),
 "C02": ("proof", "Deductive, for all histories: the representation invariant INV (initial target, gap-free, monotone, non-negative clock-aligned boundaries via ghost multipliers, "
         "pulse occupies its duration, minimum durations, targets change only at target slots) is proved preserved, with the old slots a prefix of the new ones, by each of the "
         "_Schedule writers (add_delay, add_pulse, add_target, wait_for_fall) against the real AST; get_duration's loop is proved against its specification.", "DESIGN.md section 3 C02"),
 "C03": ("proof", "Deductive: _find_add_delay (nested loop invariants + lemma L-first-retarget) gives no-conflict and minimality for all schedules; make_next_pulse_slot gives earliest-allowed "
         "start, barrier and no-delay clauses; add_pulse lifts them to the timeline. estimate==actual and align are decided by the bounded stand-in until their Sequence-level contracts are finished.",
         "DESIGN.md section 3 C03"),
 "C06": ("proof", "Deductive: ChannelSamples.extend_duration against the padding clause (refuses a shorter duration; keeps every existing sample; pads amplitude with zeros, "
         "detuning with the off-detuning of the last block iff it is still open and zero otherwise, phase with its last value or zero when empty) for all arrays and durations. "
         "Per-channel rendering (_ChannelSchedule.get_samples) and the per-atom view (to_nested_dict) are decided by the bounded stand-in, which re-renders every generated schedule "
         "independently from its slots.", "DESIGN.md section 3 C06"),
 "C07": ("proof", "Deductive: _PhaseTracker/_QubitRef representation invariants and additive update (witnessed modulo 2pi) proved for __setitem__/increment_phase/"
         "update_last_used; _phase_shift shifts exactly the targeted trackers (loop invariant + frame); Sequence._add schedules programmed phase + common reference, starts after "
         "the latest phase shift of its targets, marks targets used and applies the post-phase shift; lemma L-phase-additive lifts single increments to sums of shifts.", "DESIGN.md section 3 C07"),
 "C08": ("proof", "Deductive (mechanism core only): every Variable update is counted (_assign and _clear add exactly one to the counter and store / clear the value; build returns the "
         "assigned value or raises), which is what makes a cached ParamObj instance impossible to be stale. The rest of the property - ParamObj cache comparison, the replay loop of "
         "Sequence.build, template immutability, mappable registers and index targeting - is decided by the bounded stand-in (random templates built three times and compared with direct construction).",
         "DESIGN.md section 3 C08"),
 "C09": ("proof", "Deductive exceptional postconditions: on every raising path of add_delay / add_pulse / add_target the tracked heap equals the entry heap (exc_safe obligations), "
         "three known findings (multi-step mutators) proved absent outside their witness classes; read-only and replay clauses by the bounded stand-in.", "DESIGN.md section 3 C09"),
 "C12": ("proof", "Deductive (decision logic): validate_register / validate_layout / validate_layout_filling / _validate_atom_number are proved to accept iff every applicable check holds "
         "(dimensionality, atom number, trap numbers, filling int(n*f), coordinate checks, layout checks wrapped as documented), in the documented order. The pairwise-distance and radial leaves "
         "(numpy) are assumed interface contracts; their meaning, the exact culprit lists, the device-aware constructors and device construction are decided by the bounded stand-in with an "
         "independent oracle at, just inside and just outside each limit.", "DESIGN.md section 3 C12"),
 "C13": ("proof", "Deductive, refusal direction: iff-contracts of _validate_channel (undeclared / EOM-blocked / SLM-waiting) and _validate_add_protocol; the real block_if_measured wrapper "
         "executed around _delay/_target (refused when measured, before any write); retarget refused on non-local channels and inside EOM; enable_eom_mode / disable_eom_mode / add_eom_pulse "
         "return only from / into the right EOM mode. Declaration / configuration typestate on plain and parametrized sequences (ids once, names once, XY exclusivity, inspection and "
         "post-measurement refusals) is decided by the bounded stand-in (replay/c13p.py); one known finding (first use of a variable after measure()).",
         "DESIGN.md section 3 C13"),
 "C15": ("proof", "Deductive: _Schedule.enable_eom/disable_eom against the EOM block invariant (the block stores exactly the chosen setpoint and off-detuning, buffers of the configured "
         "clock-adjusted length after the previous pulse's fall, detuned-delay buffer iff off-detuning != 0, closing at the channel end); at the Sequence level, through the real decorator "
         "chains: _process_eom_parameters (the off-detuning stored and validated is the chosen one), enable_eom_mode / modify_eom_setpoint / disable_eom_mode / add_eom_pulse (EOM pulses are "
         "constant waveforms carrying exactly the block's setpoint whatever the clock stretching does; every phase-drift correction equals rate x window with the window fixed by the "
         "specification: the buffer only / old rate up to the switch then new rate / since the last real pulse; the schedule writers make_next_pulse_slot / add_pulse evaluate the corrected phase at the slot's own start after rounding). The meaning of 'closest allowed option' (numpy argmin) and the emulated "
         "populations are decided by the bounded stand-in (drift oracle: phase reference vs integral of the programmed off-detuning).", "DESIGN.md section 9.3 (C15 at the Sequence level)"),
 "C16": ("proof", "Deductive (integer / algebraic core): Waveform.__init__, _check_index and _check_slice against Python's own slice semantics, durations of Constant/Ramp/"
         "Blackman and the Composite sum (loop invariant), Constant/Ramp samples (first/last/within end points; the automatic division-safety obligation finds the duration-1 ramp), "
         "change_duration and scaling of Constant/Ramp, Pulse.__init__ (equal lengths, non-negative amplitude, phases mod 2pi), Pulse.ConstantPulse, is_detuned_delay. "
         "Blackman/Kaiser/Interpolated numerics, from_max_val, finiteness and ArbitraryPhase are decided by the bounded stand-in (durations 1..40 exhaustive).", "DESIGN.md section 3 C16"),
 "C19": ("proof", "Deductive (core only): _calc_sorting_order passes the rounded columns to lexsort in reverse order for 2-D and 3-D layouts, so the canonical order is x, then y, then z "
         "(over the numpy axiom that lexsort sorts by its last key first); _sorted_coords / sorted_coords return the rounded coordinates taken in that canonical order and WeightMap.sorted_weights the weights taken in the canonical order of their own traps (integer-array indexing and np.array as uninterpreted functions). Order independence, hashes, id <-> coordinate inverse, define_register, build_register order and detuning-map weights "
         "are decided by the bounded stand-in on generated layouts and shuffled copies.", "DESIGN.md section 3 C19"),
 "C18": ("proof", "Deductive: check_channels_match (the real nested function) returning ('','') under strict=True implies agreement on type, basis, addressing, mod_bandwidth, "
         "fixed_retarget_t, clock_period (and min_retarget_interval when it matters); pure leaf lemmas show which timing leaves (rise time, clock rounding) depend only on those fields, "
         "and which do not (min_duration, custom_phase_jump_time, max_duration, EOM custom_buffer_time: four known findings with witness classes). Timeline equality after the replay, the "
         "non-strict clause and switch_register are decided by the bounded stand-in (switching finished random histories to variant devices).", "DESIGN.md section 3 C18"),
 "C17": ("other", "Split level. Deductive, all inputs and interleavings: one frame obligation per function of the anchored packages (536 functions: devices, channels, noise model, register, backend, "
         "json, pulser_simulation) - no store into class-level state, no mutated or stored mutable default argument, no rebinding / in-place mutation of a module-level container - decided exactly "
         "from the AST of the current tree (found StateRepr sharing n_qudits through the class; repaired). Schema validity, field-by-field round-trips of every listed class, NoiseModel<->SimConfig, "
         "active noise types and aliasing through shared argument objects are reflective JSON code outside the VC generator's subset: bounded stand-in only (generated objects, interleaved "
         "constructions / decodings, earlier instances re-observed), labelled bounded and not counted as proved.", "DESIGN.md section 3 C17"),
 "C10": ("proof", "Deductive: phase-jump buffer bound in make_next_pulse_slot; retarget-after-fall, minimum retarget interval and fixed retarget time as invariants preserved by add_target and "
         "all other writers; same-target retarget inserts nothing.", "DESIGN.md section 3 C10"),
}
TECH = {"C17": "frame / ownership obligations per function decided from the real AST (deductive part); bounded round-trip and aliasing stand-in on the real tree for the rest (not counted as proved)"}
NA = {
 "C05": "QuTiP operator algebra over an unbounded tensor power; no contract over ints/reals/sequences expresses it (DESIGN.md section 4)",
 "C11": "outputs of qutip.sesolve/mesolve (floating-point ODE integration); out of reach of contracts (DESIGN.md section 4)",
 "C14": "properties of ifft(fft(x)*gaussian) in doubles; only array lengths are within reach (DESIGN.md section 4)",
 "C20": "expectation values / fidelities on QuTiP states; numerics (DESIGN.md section 4)",
}
PENDING = ["C04", "C06", "C07", "C08", "C12", "C13", "C15", "C16", "C17", "C18", "C19"]
PENDING = [p for p in PENDING if p not in CLAIMED]
checks = []
for pid, (cat, text, ref) in sorted(CLAIMED.items()):
    checks.append({
        "property_id": pid, "quick_cmd": f"./check {pid} --tier quick", "thorough_cmd": f"./check {pid} --tier thorough",
        "evidence_file": f"/verif/evidence/{pid}.json", "replay_cmd_template": f"./check {pid} --replay {{path}}", "engine": "pyvc",
        "level_claimed": {"category": cat, "text": text, "design_ref": ref}, "level_note": NOTE,
        "technique": TECH.get(pid, "contract-based deductive verification: VCs generated from the real Python AST against sidecar contracts, discharged by z3 (cvc5 cross-check in thorough); bounded concrete stand-in for replay"),
    })
na = [{"property_id": p, "reason": r} for p, r in NA.items()] + \
     [{"property_id": p, "reason": "not claimed yet: its contracts are not finished in this revision (see DESIGN.md section 8); no check is registered rather than claiming it on a bounded part"} for p in PENDING]
m = {"version": 1,
     "setup_cmd": "python3-vt -m compileall -q pyvc contracts props >/dev/null && python3-vt -c \"import z3; s=z3.Solver(); x=z3.Int('x'); s.add(x>1, x<1); assert s.check()==z3.unsat\"",
     "hooks": {"guard": "PULSER_VERIF", "enable": "no hooks: contracts are sidecar files under /verif/contracts and /repo is read as text on every run (PULSER_VERIF is declared but unused)",
               "baseline_off_cmd": "cd /repo && /venv/bin/python -m pytest -ra -q -p no:cacheprovider --timeout=900 --continue-on-collection-errors",
               "source_commits": [], "add_only": True},
     "engines": [{"name": "pyvc", "path": "/verif/pyvc", "serves_properties": sorted(CLAIMED),
                  "kind_free_text": "own verification-condition generator: symbolic execution of the real AST (re-read from /repo each run) against sidecar contracts, loop invariants, frames, exceptional postconditions and lemmas; z3 back end, cvc5 cross-check"}],
     "checks": checks,
     "notes": "fix: commits in /repo (unguarded repairs of genuine defects): see /verif/known_findings.json entries with status 'fixed'.",
     "not_applicable": sorted(na, key=lambda x: x["property_id"])}
json.dump(m, open(os.path.join(V, "MANIFEST.json"), "w"), indent=1)
print("wrote MANIFEST with", len(checks), "checks")
