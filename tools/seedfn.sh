#!/bin/bash
# tools/seedfn.sh <seed id> <qualname...>  -- verify single functions against a seeded change on a scratch copy
ID=$1; shift
D=$(mktemp -d /tmp/seedtree.XXXX)
mkdir -p $D/pulser-core $D/pulser-simulation
cp -r /repo/pulser-core/pulser $D/pulser-core/
cp -r /repo/pulser-simulation/pulser_simulation $D/pulser-simulation/; cp /repo/VERSION.txt $D/ 2>/dev/null
(cd $D && patch -p1 -s < /verif/seeded/$ID/patch.diff) || { echo "$ID PATCH-FAIL"; rm -rf $D; exit 9; }
PYVC_ROOT=$D python3-vt -m pyvc.pdev -k 6 "$@" 2>&1 | grep -v "^  File\|^    " | tail -14
rm -rf $D
