#!/bin/bash
# tools/allchecks.sh [props...]: run the quick check of every claimed property on /repo (unchanged tree), refresh evidence and baselines
cd /verif
OUT=${ALLOUT:-/tmp/allchecks.txt}; : > $OUT
PROPS="$@"; [ -z "$PROPS" ] && PROPS=$(python3 -c "import json;print(' '.join(c['property_id'] for c in json.load(open('/verif/MANIFEST.json'))['checks']))")
for p in $PROPS; do
  out=$(VERIF_WRITE_BASELINE=1 ./check $p --tier quick 2>&1); rc=$?
  echo "$p rc=$rc $(echo "$out" | grep -E "^$p:|VIOLATION|UNDECIDED|CHECKER|KNOWN" | head -6 | cut -c1-260 | tr '\n' '|')" >> $OUT
done
echo ALLDONE >> $OUT
