#!/usr/bin/env python3
"""tools/mkmeta.py <matrix-results.txt> [confirm.txt]: write/refresh seeded/<id>/meta.json from a seedmatrix result file.
Lines look like '<id> <prop> exit=<rc> :: <summary>|<line>|...'."""
import json, os, re, sys
V = os.path.dirname(os.path.dirname(os.path.abspath(__file__)))
res = {}
for ln in open(sys.argv[1]):
    m = re.match(r"(\S+) (\S+) exit=(\d+) :: (.*)", ln.strip())
    if m:
        res[m.group(1)] = (m.group(2), int(m.group(3)), m.group(4))
conf = {}
if len(sys.argv) > 2:
    for ln in open(sys.argv[2]):
        m = re.match(r"(\S+) demo_clean=(\d+) demo_patched=(\d+) tests: (.*)", ln.strip())
        if m:
            conf[m.group(1)] = m.groups()[1:]
for sid, (prop, rc, text) in sorted(res.items()):
    d = os.path.join(V, "seeded", sid)
    if not os.path.isdir(d):
        continue
    mp = os.path.join(d, "meta.json")
    meta = json.load(open(mp)) if os.path.exists(mp) else {"id": sid, "property": prop, "origin": "independent sub-agent given only the property text and a scratch worktree"}
    if "needs_to_manifest" not in meta:
        notes = os.path.join(d, "notes.txt")
        meta["needs_to_manifest"] = [x.rstrip() for x in open(notes).read().splitlines() if x.strip()][:14] if os.path.exists(notes) else []
    if sid in conf:
        c = conf[sid]
        meta["confirmed"] = {"demo_on_unchanged_tree": "PASS" if c[0] == "0" else "FAIL", "demo_with_patch": "FAIL" if c[1] != "0" else "PASS",
                             "tree_test_suite_with_patch": c[2], "how": "tools/confirm_seeds.sh on a scratch worktree of /repo HEAD (PYTHONPATH on the worktree)"}
    failed = re.findall(r"failed obligation: (\S+)", text)
    if rc == 1:
        meta["caught_by"] = prop
        how = "VIOLATION"
        if "no-failing-input-found" in text:
            how += " (named obligation, no concrete input found)"
        elif "standin" in text:
            how += " with a concrete replay from the bounded stand-in"
        und = re.search(r"undecided=(\d+)", text)
        vio = re.search(r"violations=(\d+)", text)
        meta["how_caught"] = how + (f"; obligations not discharged: {', '.join(failed[:4])}" if failed else "") + f" [{text[:160]}]"
    else:
        meta["caught_by"] = None
        meta["how_caught"] = ("MISSED (exit %d) " % rc) + text[:300]
    meta["ran"] = f"tools/seedmatrix.sh {sid} {prop}  (scratch copy of the tree via PYVC_ROOT; /repo itself untouched)"
    json.dump(meta, open(mp, "w"), indent=1)
    print(sid, "caught" if rc == 1 else "MISSED", rc)
