#!/usr/bin/env python3
"""refresh the 'as built' table in DESIGN.md (between the STATUSTABLE markers) from evidence/*.json"""
import glob, json, os
V = os.path.dirname(os.path.dirname(os.path.abspath(__file__)))
rows = ["| id | level | functions under contract | lemmas | obligations discharged / generated | known findings | solver time | stand-in cases (distinct) | wall (quick) |", "|---|---|---|---|---|---|---|---|---|"]
for p in sorted(glob.glob(os.path.join(V, "evidence", "C*.json"))):
    e = json.load(open(p)); c = e["coverage"]
    fns = [f for f in c.get("functions_under_contract", []) if f]
    nf = sum(f.get("functions", 1) if isinstance(f, dict) and f.get("qual") == "ownership pass" else 1 for f in fns)
    rows.append(f"| {e['property_id']} | {e['level']} | {nf} | {len(c.get('lemmas', []))} | {c['discharged']} / {c['obligations'] + len(c.get('known_findings', [])) * 0} | "
                f"{', '.join(c.get('known_findings', [])) or '–'} | {c.get('solver_time_s', 0)} s | {c.get('evaluations', 0)} ({c.get('distinct_nontrivial', 0)}) | {e['wall_s']} s |")
t = "\n".join(rows) + "\n"
p = os.path.join(V, "DESIGN.md"); s = open(p).read()
a, b = s.index("<!-- STATUSTABLE-BEGIN -->"), s.index("<!-- STATUSTABLE-END -->")
open(p, "w").write(s[:a] + "<!-- STATUSTABLE-BEGIN -->\n" + t + s[b:])
print(t)
