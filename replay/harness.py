"""Bounded stand-in and replay vehicle: runs under /venv/bin/python with PYTHONPATH pointing at the tree.

Generates call histories through the public API on generated channel/device configurations and evaluates the
*concrete* form of the contracts after every call.  Labelled bounded: it never counts as proof.

  harness.py <prop> --tier quick|thorough --seed N [--hints file]     -> last stdout line is a JSON summary
  harness.py <prop> --replay <replay.json>                             -> re-runs the recorded failing histories
"""
import json
import math
import os
import random
import sys
import time
import warnings

warnings.filterwarnings("ignore")
import numpy as np  # noqa: E402

import pulser  # noqa: E402
from pulser import Pulse, Register, Sequence  # noqa: E402
from pulser.channels import DMM, Raman, Rydberg  # noqa: E402
from pulser.channels.eom import RydbergBeam, RydbergEOM  # noqa: E402
from pulser.devices import VirtualDevice  # noqa: E402
from pulser.waveforms import BlackmanWaveform, ConstantWaveform, RampWaveform  # noqa: E402
from pulser.register.register_layout import RegisterLayout  # noqa: E402

sys.path.insert(0, os.path.dirname(os.path.abspath(__file__)))
import checks  # noqa: E402


def pick(rng, xs):
    return xs[rng.randrange(len(xs))]


def gen_config(rng, hint=None):
    """A device configuration as plain data (so that it can be stored in a replay file)."""
    def chan(kind, local):
        clock = pick(rng, [1, 1, 2, 4, 4, 5, 8])
        mind = pick(rng, [1, 4, 5, 16, 20])
        maxd = pick(rng, [None, None, 10**7, 400, 1000, 1002])
        if maxd is not None and maxd < mind:
            maxd = None
        bw = pick(rng, [None, None, 2.0, 4.0, 8.0, 20.0])
        c = dict(kind=kind, local=local, clock_period=clock, min_duration=mind, max_duration=maxd, mod_bandwidth=bw,
                 max_amp=pick(rng, [None, 10.0, 15.7, 60.0]), max_abs_detuning=pick(rng, [None, 20.0, 125.0]),
                 min_avg_amp=pick(rng, [0, 0, 0.4]), custom_phase_jump_time=pick(rng, [None, None, 0, 40]))
        if local:
            c.update(min_retarget_interval=pick(rng, [0, 50, 220, 13]), fixed_retarget_t=pick(rng, [0, 0, 10, 100]), max_targets=pick(rng, [None, 1, 2]))
        if bw is not None and kind == "rydberg" and rng.random() < 0.5:
            if rng.random() < 0.4:
                c["max_abs_detuning"] = pick(rng, [12.0, 11.0, 7.0])      # below some of the EOM's off-detuning options
            c["eom"] = dict(mod_bandwidth=pick(rng, [bw, 2 * bw, 30.0 if bw <= 30 else bw]), custom_buffer_time=pick(rng, [None, None, 240, 100]),
                            multiple_beam_control=pick(rng, [True, False]), beams=pick(rng, [1, 2]))
        return c
    cfg = dict(channels={}, max_sequence_duration=pick(rng, [None, None, None, 3000, 1500, 700]), n_atoms=pick(rng, [2, 3, 4]), reusable=rng.random() < 0.25,
               dmm=pick(rng, [None, None, dict(bottom_detuning=pick(rng, [None, -20.0, -100.0]), total_bottom_detuning=pick(rng, [None, -200.0]),
                                               clock_period=pick(rng, [1, 4]), min_duration=pick(rng, [1, 16]), mod_bandwidth=pick(rng, [None, 8.0]))]))
    names = pick(rng, [["ryd_glob"], ["ryd_glob", "ram_loc"], ["ryd_glob", "ryd_loc"], ["ryd_glob", "ram_loc", "ryd_loc"], ["ryd_glob", "ryd_glob2"], ["ram_glob", "ram_loc"]])
    for nm in names:
        kind = "rydberg" if nm.startswith("ryd") else "raman"
        cfg["channels"][nm] = chan(kind, nm.endswith("loc"))
    if hint:
        # bias one channel towards the verifier's counter-model
        nm = pick(rng, list(cfg["channels"]))
        for k in ("clock_period", "min_duration", "max_duration", "min_retarget_interval", "fixed_retarget_t"):
            if k in hint and hint[k] is not None and (k in cfg["channels"][nm] or k in ("clock_period", "min_duration", "max_duration")):
                cfg["channels"][nm][k] = hint[k]
        c = cfg["channels"][nm]
        if c.get("max_duration") is not None and c["max_duration"] < c["min_duration"]:
            c["max_duration"] = None
    return cfg


def build_device(cfg):
    chs = {}
    for nm, c in cfg["channels"].items():
        cls = Rydberg if c["kind"] == "rydberg" else Raman
        kw = dict(clock_period=c["clock_period"], min_duration=c["min_duration"], max_duration=c["max_duration"], mod_bandwidth=c["mod_bandwidth"],
                  min_avg_amp=c["min_avg_amp"], custom_phase_jump_time=c["custom_phase_jump_time"])
        if c.get("eom"):
            e = c["eom"]
            beams = (RydbergBeam.BLUE, RydbergBeam.RED)[: e["beams"]]
            kw["eom_config"] = RydbergEOM(mod_bandwidth=e["mod_bandwidth"], limiting_beam=RydbergBeam.RED, max_limiting_amp=40 * 2 * np.pi,
                                          intermediate_detuning=700 * 2 * np.pi, controlled_beams=beams,
                                          multiple_beam_control=e["multiple_beam_control"] if len(beams) > 1 else True,
                                          custom_buffer_time=e["custom_buffer_time"])
        if c["local"]:
            chs[nm] = cls.Local(c["max_abs_detuning"], c["max_amp"], min_retarget_interval=c["min_retarget_interval"], fixed_retarget_t=c["fixed_retarget_t"],
                                max_targets=c["max_targets"], **kw)
        else:
            chs[nm] = cls.Global(c["max_abs_detuning"], c["max_amp"], **kw)
    dmms = ()
    if cfg.get("dmm"):
        d = cfg["dmm"]
        dmms = (DMM(bottom_detuning=d["bottom_detuning"], total_bottom_detuning=d["total_bottom_detuning"], clock_period=d["clock_period"],
                    min_duration=d["min_duration"], mod_bandwidth=d["mod_bandwidth"]),)
    return VirtualDevice(name="gen", dimensions=2, rydberg_level=61, channel_ids=tuple(chs), channel_objects=tuple(chs.values()),
                         dmm_objects=dmms, supports_slm_mask=bool(dmms), max_sequence_duration=cfg["max_sequence_duration"], reusable_channels=bool(cfg.get("reusable", False)))


def make_pulse(spec):
    k = spec[0]
    if k == "const":
        _, d, a, det, ph, pps = spec
        return Pulse.ConstantPulse(d, a, det, ph, post_phase_shift=pps)
    if k == "ramp":
        _, d, a0, a1, det, ph = spec
        return Pulse.ConstantDetuning(RampWaveform(d, a0, a1), det, ph)
    if k == "black":
        _, d, area, det, ph = spec
        return Pulse.ConstantDetuning(BlackmanWaveform(d, area), det, ph)
    if k == "detramp":
        _, d, a, d0, d1, ph = spec
        return Pulse.ConstantAmplitude(a, RampWaveform(d, d0, d1), ph)
    if k == "kaiser":
        # a Kaiser window of the given shape parameter whose peak is the given value (just inside typical amplitude limits)
        from pulser.waveforms import KaiserWaveform
        _, d, peak, beta, det, ph = spec
        p1 = float(np.max(KaiserWaveform(d, 1.0, beta).samples.as_array(detach=True)))
        return Pulse.ConstantDetuning(KaiserWaveform(d, peak / p1, beta), det, ph)
    raise ValueError(k)


def gen_pulse_spec(rng):
    d = pick(rng, [4, 16, 20, 50, 52, 100, 101, 200, 333, 400, 1000, 7, 1])
    ph = pick(rng, [0, 0, 1.0, math.pi, 4.5, -1.0])
    k = pick(rng, ["const", "const", "ramp", "black", "detramp", "kaiser"])
    if rng.random() < 0.02:
        # non-finite values (given directly, or produced by a one-sample ramp): never acceptable on any channel
        return pick(rng, [("const", d, float("nan"), 0.0, ph, 0), ("const", d, 1.0, float("inf"), ph, 0), ("const", d, 1.0, float("nan"), ph, 0),
                          ("ramp", 1, 0.0, 1.0, 0.0, ph), ("detramp", 1, 1.0, -1.0, 0.0, ph)])
    if k == "const":
        return ("const", d, pick(rng, [0.0, 1.0, 5.0, 10.0, 15.7, 15.8, 0.3]), pick(rng, [0.0, -5.0, 20.0, 20.1, -125.0]), ph, pick(rng, [0, 0, 0.5]))
    if k == "ramp":
        return ("ramp", max(d, 2), pick(rng, [0.0, 1.0, 10.0]), pick(rng, [0.0, 5.0, 15.7, 16.0]), pick(rng, [0.0, -10.0]), ph)
    if k == "black":
        return ("black", max(d, 4), pick(rng, [0.5, math.pi, 6.0]), pick(rng, [0.0, 3.0]), ph)
    if k == "kaiser":
        return ("kaiser", pick(rng, [7, 22, 50, 98, 101, 333, 52, 100, 30]), pick(rng, [8.0, 9.9, 12.5, 15.6, 48.0, 59.0]), pick(rng, [14.0, 1.0, 3.0, 8.0, 20.0, 1.0]), pick(rng, [0.0, -3.0]), ph)
    return ("detramp", max(d, 2), pick(rng, [1.0, 4.0]), pick(rng, [-20.0, -30.0, 0.0]), pick(rng, [20.0, 10.0, 0.0]), ph)


def gen_history(rng, cfg, length):
    """A list of API operations as plain data."""
    names = list(cfg["channels"])
    qids = [f"q{i}" for i in range(cfg["n_atoms"])]
    ops = []
    declared = []
    order = names[:]
    rng.shuffle(order)
    late = []
    for nm in order:
        c = cfg["channels"][nm]
        it = pick(rng, [None, qids[0], qids[-1]]) if c["local"] else None
        if declared and rng.random() < 0.25:
            late.append(("declare", nm, nm, it))      # declared in the middle of the history
            continue
        ops.append(("declare", nm, nm, it))
        declared.append(nm)
    if cfg.get("dmm") and rng.random() < 0.7:
        ops.append(("dmm", {q: round(rng.random(), 2) for q in qids}))
        declared.append("dmm_0")
        if cfg.get("reusable") and rng.random() < 0.7:
            # the same DMM configured a second time with another map (allowed when channels are reusable): declared name dmm_0_1
            w2 = {q: pick(rng, [0.0, 0.1, 1.0, 0.5]) for q in qids}
            if not any(w2.values()):
                w2[qids[0]] = 1.0
            ops.append(("dmm", w2))
            declared.append("dmm_0_1")
    for step in range(length):
        if late and (rng.random() < 0.2 or step == length - 2):
            op = late.pop()
            ops.append(op)
            declared.append(op[1])
            continue
        ch = pick(rng, declared)
        r = rng.random()
        if rng.random() < 0.03:
            # calls that must be refused and leave no trace: a variable of another sequence; an own variable used on an undeclared channel
            if rng.random() < 0.5:
                ops.append(("badvar_foreign", ch))
            else:
                ops.append(("declare_var", f"v{step}"))
                ops.append(("delay_var", f"v{step}", "no_such_channel"))
            continue
        if ch.startswith("dmm_"):
            if r < 0.7:
                ops.append(("add_dmm", ("detconst", pick(rng, [16, 100, 200, 52]), pick(rng, [-1.0, -10.0, -30.0, 0.0, 5.0])), ch, pick(rng, ["no-delay", "min-delay"])))
            else:
                ops.append(("delay", pick(rng, [16, 100, 40]), ch, False))
            continue
        local = cfg["channels"][ch]["local"]
        has_eom = bool(cfg["channels"][ch].get("eom"))
        if r < 0.42:
            ops.append(("add", gen_pulse_spec(rng), ch, pick(rng, ["min-delay", "min-delay", "no-delay", "wait-for-all"])))
        elif r < 0.55:
            ops.append(("delay", pick(rng, [0, 4, 16, 100, 101, 37, 1000]), ch, pick(rng, [False, False, True])))
        elif r < 0.68 and local:
            k = pick(rng, [1, 1, 2])
            ops.append(("target", rng.sample(qids, min(k, len(qids))), ch))
        elif r < 0.76:
            chs = rng.sample(declared, min(len(declared), pick(rng, [2, 2, 3])))
            ops.append(("align", [c for c in chs if not c.startswith("dmm_")] or [ch], pick(rng, [True, False])))
        elif r < 0.84:
            ops.append(("phase_shift", pick(rng, [0.5, math.pi, -1.0, 7.0]), rng.sample(qids, pick(rng, [1, 2])), "ground-rydberg" if cfg["channels"][ch]["kind"] == "rydberg" else "digital"))
        elif r < 0.92 and has_eom:
            ops.append(pick(rng, [("enable_eom", ch, pick(rng, [1.0, 5.0, 10.0]), pick(rng, [0.0, -5.0, 10.0]), pick(rng, [0.0, -20.0, 30.0]), pick(rng, [True, False])),
                                  ("eom_pulse", ch, pick(rng, [16, 100, 101, 52]), pick(rng, [0, 1.0, math.pi]), pick(rng, ["min-delay", "no-delay"]), pick(rng, [True, False])),
                                  ("disable_eom", ch, pick(rng, [True, False])),
                                  ("modify_eom", ch, pick(rng, [2.0, 8.0]), pick(rng, [0.0, 4.0]), pick(rng, [0.0, 15.0]), pick(rng, [True, False]))]))
        elif r < 0.93:
            ops.append(("measure", "ground-rydberg" if cfg["channels"][ch]["kind"] == "rydberg" else "digital"))
        elif r < 0.96:
            ops.append(("estimate", gen_pulse_spec(rng), ch, pick(rng, ["min-delay", "no-delay", "wait-for-all"])))
        else:
            ops.append(("readonly", pick(rng, ["str", "duration", "sample", "serialize", "phase_ref"]), ch))
    return ops


def gen_drift_case(rng):
    """one EOM channel, every EOM control / EOM pulse with correct_phase_drift=True, no other phase shifts (oracle: checks.final_C15)"""
    bw = pick(rng, [4.0, 8.0, 2.0])
    local = rng.random() < 0.3
    c = dict(kind="rydberg", local=local, clock_period=pick(rng, [4, 4, 8, 1]), min_duration=pick(rng, [16, 16, 4, 20]), max_duration=None, mod_bandwidth=bw,
             max_amp=60.0, max_abs_detuning=125.0, min_avg_amp=0, custom_phase_jump_time=None,
             eom=dict(mod_bandwidth=pick(rng, [30.0, 2 * bw, bw]), custom_buffer_time=pick(rng, [None, None, 240, 100]), multiple_beam_control=pick(rng, [True, False]), beams=pick(rng, [1, 2])))
    if local:
        c.update(min_retarget_interval=pick(rng, [0, 220]), fixed_retarget_t=0, max_targets=1)
    cfg = dict(channels={"ch": c}, max_sequence_duration=None, n_atoms=2, dmm=None, reusable=False, all_drift=True)
    ops = [("declare", "ch", "ch", "q0" if local else None)]
    in_eom = False
    gaps = [4, 8, 16, 100, 104, 108, 112, 116, 120, 200, 228, 232, 236, 240, 37]
    for _ in range(pick(rng, [4, 7, 10])):
        r = rng.random()
        if not in_eom:
            if r < 0.35:
                ops.append(("add", ("const", pick(rng, [52, 100, 200]), pick(rng, [1.0, 5.0]), pick(rng, [0.0, -5.0]), 0, 0), "ch", "min-delay"))
            elif r < 0.6:
                ops.append(("delay", pick(rng, gaps), "ch", False))
            else:
                ops.append(("enable_eom", "ch", pick(rng, [1.0, 5.0, 10.0]), pick(rng, [0.0, -5.0, 10.0]), pick(rng, [0.0, -20.0, 30.0]), True))
                in_eom = True
        else:
            if r < 0.35:
                ops.append(("eom_pulse", "ch", pick(rng, [16, 52, 100, 101]), 0, pick(rng, ["min-delay", "no-delay"]), True))
            elif r < 0.55:
                ops.append(("delay", pick(rng, gaps), "ch", False))
            elif r < 0.75:
                ops.append(("modify_eom", "ch", pick(rng, [2.0, 8.0, 5.0]), pick(rng, [0.0, 4.0]), pick(rng, [0.0, 15.0, -20.0]), True))
            else:
                ops.append(("disable_eom", "ch", True))
                in_eom = False
    if in_eom:
        ops.append(("disable_eom", "ch", True))
    return cfg, ops


def scripted_histories(rng):
    """a few hand-written edge histories that random generation reaches rarely (run first on every run)"""
    def eom_cfg(buf=None, clock=4, mind=16, maxseq=None):
        return dict(channels={"ryd_glob": dict(kind="rydberg", local=False, clock_period=clock, min_duration=mind, max_duration=None, mod_bandwidth=4.0,
                                               max_amp=60.0, max_abs_detuning=125.0, min_avg_amp=0, custom_phase_jump_time=None,
                                               eom=dict(mod_bandwidth=30.0, custom_buffer_time=buf, multiple_beam_control=True, beams=2)),
                              "ram_loc": dict(kind="raman", local=True, clock_period=4, min_duration=16, max_duration=None, mod_bandwidth=4.0, max_amp=60.0,
                                              max_abs_detuning=125.0, min_avg_amp=0, custom_phase_jump_time=None, min_retarget_interval=220, fixed_retarget_t=0, max_targets=1)},
                    max_sequence_duration=maxseq, n_atoms=3, dmm=None)
    for buf in (None, 240):
        c = eom_cfg(buf)
        # EOM switched on and off on a still-empty channel: the block closes at t = 0
        yield c, [("declare", "ryd_glob", "ryd_glob", None), ("enable_eom", "ryd_glob", 5.0, 0.0, 0.0, False), ("disable_eom", "ryd_glob", False),
                  ("eom_pulse", "ryd_glob", 100, 0.0, "min-delay", False), ("disable_eom", "ryd_glob", False), ("add", ("const", 100, 1.0, 0.0, 0, 0), "ryd_glob", "min-delay")]
        yield c, [("declare", "ryd_glob", "ryd_glob", None), ("add", ("const", 100, 1.0, 0.0, 0, 0), "ryd_glob", "min-delay"),
                  ("enable_eom", "ryd_glob", 5.0, 0.0, -20.0, True), ("eom_pulse", "ryd_glob", 100, 1.0, "min-delay", True), ("delay", 40, "ryd_glob", False),
                  ("modify_eom", "ryd_glob", 8.0, 4.0, 15.0, True), ("eom_pulse", "ryd_glob", 52, 0.0, "no-delay", True), ("disable_eom", "ryd_glob", True),
                  ("add", ("const", 100, 1.0, 0.0, 1.0, 0), "ryd_glob", "min-delay")]
    # a local channel retargeted at t = 0 (zero-length target slot) and put into EOM mode while still empty; then sampled
    c = eom_cfg()
    c["channels"]["ryd_loc"] = dict(c["channels"]["ryd_glob"], local=True, min_retarget_interval=0, fixed_retarget_t=0, max_targets=1)
    yield c, [("declare", "ryd_glob", "ryd_glob", None), ("declare", "ryd_loc", "ryd_loc", "q0"), ("add", ("const", 100, 1.0, 0.0, 0, 0), "ryd_glob", "min-delay"),
              ("target", ["q1"], "ryd_loc"), ("enable_eom", "ryd_loc", 5.0, 0.0, -20.0, False)]
    yield c, [("declare", "ryd_glob", "ryd_glob", None), ("declare", "ryd_loc", "ryd_loc", "q0"), ("add", ("const", 100, 1.0, 0.0, 0, 0), "ryd_glob", "min-delay"),
              ("target", ["q1"], "ryd_loc"), ("enable_eom", "ryd_loc", 5.0, 0.0, -20.0, False), ("eom_pulse", "ryd_loc", 100, 0.0, "no-delay", False)]
    # EOM mode enabled on a local channel right after a retarget (the start buffer is still due), with default and custom buffer time
    for buf in (None, 240):
        c = eom_cfg(buf)
        c["channels"]["ryd_loc"] = dict(c["channels"]["ryd_glob"], local=True, min_retarget_interval=220, fixed_retarget_t=0, max_targets=1)
        yield c, [("declare", "ryd_loc", "ryd_loc", "q0"), ("add", ("const", 100, 1.0, 0.0, 0, 0), "ryd_loc", "min-delay"), ("target", ["q1"], "ryd_loc"),
                  ("enable_eom", "ryd_loc", 5.0, 0.0, 0.0, False), ("eom_pulse", "ryd_loc", 100, 0.0, "min-delay", False), ("disable_eom", "ryd_loc", False),
                  ("target", ["q2"], "ryd_loc"), ("enable_eom", "ryd_loc", 5.0, 0.0, -20.0, True), ("eom_pulse", "ryd_loc", 52, 1.0, "no-delay", True), ("disable_eom", "ryd_loc", True)]
    # a local modulated channel whose custom phase-jump time is shorter than its fall time: short delays after a pulse, then a retarget / an at-rest alignment
    for pjt in (0, 40):
        c = eom_cfg()
        c["channels"]["ram_loc"].update(custom_phase_jump_time=pjt, min_retarget_interval=0)
        yield c, [("declare", "ram_loc", "ram_loc", "q1"), ("declare", "ryd_glob", "ryd_glob", None), ("add", ("const", 100, 1.0, 0.0, 0, 0), "ram_loc", "min-delay"),
                  ("delay", 16, "ram_loc", False), ("delay", 40, "ram_loc", False), ("target", ["q2"], "ram_loc"), ("add", ("const", 52, 1.0, 0.0, 1.0, 0), "ram_loc", "min-delay"),
                  ("delay", 16, "ram_loc", False), ("align", ["ram_loc", "ryd_glob"], True), ("delay", 120, "ram_loc", True)]
    # the same DMM configured twice on a device with reusable channels, with a flat and a sharp map: each is checked against its own map
    for first, second in (({"q0": 0.25, "q1": 0.25, "q2": 0.25}, {"q0": 1.0, "q1": 0.0, "q2": 0.0}), ({"q0": 1.0, "q1": 0.0, "q2": 0.0}, {"q0": 0.25, "q1": 0.25, "q2": 0.25})):
        c = dict(eom_cfg(), reusable=True, dmm=dict(bottom_detuning=-20.0, total_bottom_detuning=None, clock_period=4, min_duration=16, mod_bandwidth=None))
        yield c, [("declare", "ryd_glob", "ryd_glob", None), ("dmm", first), ("dmm", second),
                  ("add_dmm", ("detconst", 100, -30.0), "dmm_0", "no-delay"), ("add_dmm", ("detconst", 100, -30.0), "dmm_0_1", "no-delay"),
                  ("add_dmm", ("detconst", 52, -10.0), "dmm_0_1", "min-delay"), ("add_dmm", ("detconst", 52, -10.0), "dmm_0", "min-delay")]
    c = eom_cfg()
    # phase shifts between pulses on two channels sharing an atom; a channel declared after shifts were applied
    yield c, [("declare", "ryd_glob", "ryd_glob", None), ("add", ("const", 400, 1.0, 0.0, 0, 0.5), "ryd_glob", "min-delay"),
              ("phase_shift", 1.0, ["q0", "q1"], "ground-rydberg"), ("declare", "ram_loc", "ram_loc", "q1"),
              ("add", ("const", 100, 1.0, 0.0, 0, 0), "ryd_glob", "no-delay"), ("phase_shift", 0.5, ["q1"], "digital"),
              ("add", ("const", 52, 1.0, 0.0, 1.0, 0), "ram_loc", "no-delay"), ("target", ["q1"], "ram_loc"), ("target", ["q2"], "ram_loc"),
              ("add", ("const", 52, 1.0, 0.0, 1.0, 0), "ram_loc", "min-delay"), ("measure", "ground-rydberg"), ("delay", 100, "ram_loc", False)]


def apply_op(seq, op, ctx):
    k = op[0]
    if k == "declare":
        seq.declare_channel(op[1], op[2], initial_target=op[3])
    elif k == "dmm":
        dm = ctx["reg"].define_detuning_map(op[1])
        seq.config_detuning_map(dm, "dmm_0")
    elif k == "add":
        seq.add(make_pulse(op[1]), op[2], protocol=op[3])
    elif k == "add_dmm":
        _, d, det = op[1]
        seq.add_dmm_detuning(ConstantWaveform(d, det), op[2], protocol=op[3])
    elif k == "delay":
        seq.delay(op[1], op[2], at_rest=op[3])
    elif k == "target":
        seq.target(op[1], op[2])
    elif k == "align":
        seq.align(*op[1], at_rest=op[2])
    elif k == "phase_shift":
        seq.phase_shift(op[1], *op[2], basis=op[3])
    elif k == "enable_eom":
        seq.enable_eom_mode(op[1], op[2], op[3], optimal_detuning_off=op[4], correct_phase_drift=op[5])
    elif k == "eom_pulse":
        seq.add_eom_pulse(op[1], op[2], op[3], protocol=op[4], correct_phase_drift=op[5])
    elif k == "disable_eom":
        seq.disable_eom_mode(op[1], correct_phase_drift=op[2])
    elif k == "modify_eom":
        seq.modify_eom_setpoint(op[1], op[2], op[3], optimal_detuning_off=op[4], correct_phase_drift=op[5])
    elif k == "badvar_foreign":
        other = Sequence(ctx["reg"], ctx["dev"])
        seq.delay(other.declare_variable("fv", dtype=int), op[1])
    elif k == "declare_var":
        ctx.setdefault("vars", {})[op[1]] = seq.declare_variable(op[1], dtype=int)
    elif k == "delay_var":
        seq.delay(ctx["vars"][op[1]], op[2])
    elif k == "measure":
        seq.measure(op[1])
    elif k == "estimate":
        ctx["estimate"] = seq.estimate_added_delay(make_pulse(op[1]), op[2], protocol=op[3])
    elif k == "readonly":
        what = op[1]
        if what == "str":
            str(seq)
        elif what == "duration":
            seq.get_duration(); seq.get_duration(op[2]); seq.get_duration(op[2], include_fall_time=True)
        elif what == "sample":
            from pulser.sampler import sample
            sample(seq)
        elif what == "serialize":
            seq.to_abstract_repr()
        elif what == "phase_ref":
            for q in ctx["qids"]:
                for b in list(seq._basis_ref):
                    seq.current_phase_ref(q, b)
    else:
        raise ValueError(k)


def run_history(cfg, ops, props, known=()):
    """-> list of failure dicts (empty = all concrete contracts held)."""
    dev = build_device(cfg)
    n = cfg["n_atoms"]
    reg = Register({f"q{i}": (6.0 * i, 0.0) for i in range(n)})
    seq = Sequence(reg, dev)
    ctx = dict(reg=reg, qids=[f"q{i}" for i in range(n)], cfg=cfg, dev=dev)
    failures = []
    for i, op in enumerate(ops):
        before = checks.snapshot(seq)
        ctx.pop("estimate", None)
        est = None
        if op[0] == "add" and "C03" in props:
            try:
                est = seq.estimate_added_delay(make_pulse(op[1]), op[2], protocol=op[3])
            except Exception:
                est = None
            mid = checks.snapshot(seq)
            if mid != before:
                failures.append(dict(prop="C09", clause="estimate_added_delay is read-only", step=i, op=op))
        try:
            apply_op(seq, op, ctx)
            ok = True
        except Exception as ex:  # the call raised: it must have left the sequence untouched (C09)
            ok = False
            err = repr(ex)[:160]
        after = checks.snapshot(seq)
        if not ok and after != before:
            ctx["partial_failure"] = True      # (a C09 finding) the state is no longer the effect of the successful calls alone
        for p in props:
            fn = getattr(checks, "check_" + p, None)
            if fn is None:
                continue
            for msg in fn(seq, before, after, op, ok, ctx, est):
                kf = checks.classify_known(p, msg, op, cfg, before, after, known)
                failures.append(dict(prop=p, clause=msg, step=i, op=op, known=kf, error=None if ok else err))
        if failures and len(failures) > 3:
            break
    for p in props:
        fn = getattr(checks, "final_" + p, None)
        if fn is not None and not failures and not ctx.get("partial_failure"):
            for msg, extra in fn(seq, cfg, ctx, build_device, random.Random(len(ops))):
                kf = checks.classify_known(p, msg, ("final", extra), cfg, None, None, known)
                failures.append(dict(prop=p, clause=msg, step=len(ops) - 1, op=("final", extra), known=kf, error=None))
    return failures


def main(argv):
    prop = argv[0]
    tier = argv[argv.index("--tier") + 1] if "--tier" in argv else "quick"
    seed = int(argv[argv.index("--seed") + 1]) if "--seed" in argv else 0
    known = checks.load_known(prop)
    if "--replay" in argv:
        data = json.load(open(argv[argv.index("--replay") + 1]))
        bad = 0
        for f in data.get("failures", []):
            if f.get("rng_state") is not None:
                import importlib
                mod = importlib.import_module(prop.lower())
                msgs = mod.replay_case(f["op"][0], f["rng_state"])
                print("replay:", "FAILS" if msgs else "passes", msgs[:1])
                bad += bool(msgs)
                continue
            if f.get("case") is not None and prop in ("C13", "C06"):
                import c13p, c06xy
                msgs = (c13p if prop == "C13" else c06xy).replay_case(f["case"])
                print("replay:", "FAILS" if msgs else "passes", msgs[:1])
                bad += bool(msgs)
                continue
            if "cfg" not in f:
                print("replay: (function-level case; re-run the check with the same VERIF_SEED to regenerate it)", f.get("clause"))
                bad += 1
                continue
            fs = [x for x in run_history(f["cfg"], [tuple(o) if isinstance(o, list) else o for o in map(_detuple, f["ops"])], [prop], known) if not x.get("known")]
            print("replay:", "FAILS" if fs else "passes", fs[:1])
            bad += bool(fs)
        return 1 if bad else 0
    hints = []
    if "--hints" in argv:
        try:
            raw = json.load(open(argv[argv.index("--hints") + 1]))
            for m in raw or []:
                for nm, rec in (m or {}).get("$channels", {}).items():
                    h = {}
                    for k in ("clock_period", "min_duration", "max_duration", "min_retarget_interval", "fixed_retarget_t"):
                        try:
                            v = int(rec.get(k))
                            if 0 <= v <= 2000:
                                h[k] = v
                        except Exception:
                            pass
                    if rec.get("max_duration_none") == "True":
                        h["max_duration"] = None
                    if h.get("clock_period", 0) >= 1 and h.get("min_duration", 0) >= 1:
                        hints.append(h)
        except Exception:
            hints = []
    # the listed findings' own witnesses are replayed on every run
    reproduced, stale = [], []
    for k in known:
        w = k.get("witness_history")
        if not w:
            continue
        try:
            fs = run_history(w["cfg"], w["ops"], checks.PROP_GROUP.get(prop, [prop]), known)
        except Exception as ex:
            fs = []
        (reproduced if any(f.get("known") == k["id"] for f in fs) else stale).append(k["id"])
    rng = random.Random(1000003 * seed + 17)
    budget = {"quick": 25.0, "thorough": 600.0}[tier]
    if prop in ("C16", "C12", "C08", "C19", "C17"):
        import c16
        import c12
        import c08
        import c19
        import c17
        mod = {"C16": c16, "C12": c12, "C08": c08, "C19": c19, "C17": c17}[prop]

        def km(msg, kind, d):
            for k in known:
                if k.get("concrete_pattern") and k["concrete_pattern"] in msg and (k.get("kinds") is None or kind in k["kinds"]) and (k.get("durations") is None or d in k["durations"]):
                    return k["id"]
            return None
        failures, evals, distinct, samples = mod.run(rng, budget, km)
        repro = sorted({f["known"] for f in failures if f.get("known")})
        out = dict(failures=[dict(prop=prop, clause="(witness of listed finding reproduces)", known=i, step=-1, op=None) for i in repro] + [f for f in failures if not f.get("known")][:12],
                   stale_findings=[k["id"] for k in known if k["id"] not in repro],
                   summary=dict(kind="bounded stand-in (never counted as proved)", evaluations=evals, distinct_nontrivial=distinct,
                                rule=c17.RULE if prop == "C17" else ("generated VirtualDevices (dimensions, atom number, distances, radial distance, layout limits) x registers / layouts placed at, just inside and just outside each limit; "
                                      "independent oracle recomputes acceptance and the culprit sets; device-aware constructors; channel-parameter grid for device construction") if prop == "C12" else ("random histories turned into templates (variables for delays, phase shifts, constant-pulse amplitudes and durations), built three times "
                                      "(values A, values B, values A again) and compared with direct construction; template state compared before/after; mappable registers resolved on a 4x4 layout") if prop == "C08" else ("generated 2-D/3-D layouts (coordinates from a small grid with perturbations below the 1e-6 precision) vs shuffled copies: sorted order, equality, hashes, "
                                      "id <-> coordinate inverse, define_register, MappableRegister.build_register in declared order, detuning-map weights") if prop == "C19" else "every waveform class x duration 1..40 exhaustively, then random durations up to 1000; parameters drawn from small boundary-biased sets; "
                                     "concrete contracts: sample count, finiteness, documented values, indexing/slicing against Python's own, change_duration, scaling, "
                                     "from_max_val, Pulse ranges, ArbitraryPhase reconstruction; distinct = distinct (class, duration)",
                                bound=f"{budget}s wall; durations 1..40 exhaustive", samples=samples))
        print(json.dumps(out, default=str))
        return 0
    n_hist = evals = 0
    distinct = set()
    failures, samples = [], []
    extra_rule = ""
    if prop == "C13":
        # declaration / configuration typestate on plain and parametrized sequences (function-level cases)
        import c13p
        def km13(msg, kind, d):
            for k in known:
                if k.get("concrete_pattern") and k["concrete_pattern"] in msg:
                    return k["id"]
            return None
        f13, e13, d13, s13 = c13p.run(rng, budget * 0.25, km13)
        failures += f13
        evals += e13
        distinct |= {("c13p", i) for i in range(d13)}
        samples += s13[:1]
        budget *= 0.75
        extra_rule = "; plus random interleavings of declare_channel / config_detuning_map / config_slm_mask / first use of a variable / inspection calls on devices with and without reusable channels (parametrized sequences included), and of EOM enable / disable / pulse / EOM pulse / delay / is_in_eom_mode on two EOM channels of plain and parametrized sequences (each channel's acceptance follows its own mode)"
    if prop == "C06":
        # XY mode with an SLM mask (one or two Microwave channels): per-atom view vs an independent per-atom rendering
        import c06xy
        f6, e6, d6, s6 = c06xy.run(rng, budget * 0.2, lambda msg, kind, d: None)
        failures += f6
        evals += e6
        distinct |= {("c06xy", i) for i in range(d6)}
        samples += s6[:1]
        budget *= 0.8
        extra_rule = "; plus generated XY-mode sequences with an SLM mask on one or two Microwave channels (random protocols, pulses straddling the end of the mask), per-atom view compared with an independent per-atom rendering"
    t0 = time.time()
    props = checks.PROP_GROUP.get(prop, [prop])
    scripted = list(scripted_histories(rng))
    while time.time() - t0 < budget:
        hint = pick(rng, hints) if hints and rng.random() < 0.5 else None
        if scripted:
            cfg, ops = scripted.pop(0)
        elif prop == "C15" and rng.random() < 0.35:
            cfg, ops = gen_drift_case(rng)
        else:
            cfg = gen_config(rng, hint)
            ops = gen_history(rng, cfg, pick(rng, [4, 8, 12, 20]))
        try:
            fs = run_history(cfg, ops, props, known)
            if prop == "C01" and not fs and rng.random() < 0.5:
                # boundary exploration of the device's maximum sequence duration: replay the same history with the limit
                # placed at / just below each instruction boundary observed without a limit
                ends = checks.boundaries(cfg, ops, build_device, apply_op, Register, Sequence)
                for lim in rng.sample(sorted(ends), min(len(ends), 6)):
                    for delta in (0, -1, -2, -4, -6):
                        if lim + delta <= 0:
                            continue
                        cfg2 = dict(cfg, max_sequence_duration=lim + delta)
                        fs2 = run_history(cfg2, ops, props, known)
                        evals += len(ops)
                        if fs2:
                            cfg, fs = cfg2, fs2
                            break
                    if fs:
                        break
        except Exception as ex:
            import traceback
            fs = [dict(prop=prop, clause="harness-error " + repr(ex)[:200] + traceback.format_exc()[-600:], step=-1, op=None, known="harness")]
        n_hist += 1
        evals += len(ops)
        distinct.add(json.dumps([cfg, ops], default=str, sort_keys=True))
        if len(samples) < 2:
            samples.append(dict(cfg=cfg, ops=ops[:6]))
        for f in fs:
            f["cfg"], f["ops"] = cfg, ops[: f["step"] + 1] if f["step"] >= 0 else ops
            failures.append(f)
        if len([f for f in failures if not f.get("known")]) >= 3:
            break
    failures = [dict(prop=prop, clause="(witness of listed finding reproduces)", known=i, step=-1, op=None) for i in reproduced] + failures
    out = dict(failures=failures[:14], stale_findings=stale,
               summary=dict(kind="bounded stand-in (never counted as proved)", histories=n_hist, evaluations=evals, distinct_nontrivial=len(distinct),
                            rule="random API call histories (4-20 calls after declarations) on generated VirtualDevice configurations (clock 1-8, min duration 1-20, optional "
                                 "max duration / bandwidth / EOM / DMM / max sequence duration); concrete contracts of the property evaluated after every call; "
                                 "distinct = distinct (configuration, history) pairs; non-trivial = history has at least 4 calls after declarations" + extra_rule,
                            bound=f"{budget}s wall", samples=samples, hints_used=len(hints)))
    print(json.dumps(out, default=str))
    return 0


def _detuple(o):
    return o


if __name__ == "__main__":
    sys.exit(main(sys.argv[1:]))
