"""C13 stand-in, declaration / configuration typestate on plain *and parametrized* sequences (refusal direction).

Random interleavings of declare_channel / config_detuning_map / config_slm_mask / first use of a variable / inspection calls
on generated devices (reusable channels or not, one or two DMMs, optional Microwave channel).  The oracle is the property's
own rule list: ids once on a device without reusable channels (DMMs included, also the one used by the SLM mask), names once
on any device, Microwave never with other channels or DMMs, inspection refused once parametrized."""
import warnings

import numpy as np

from pulser import Pulse, Register, Sequence
from pulser.channels import DMM, Microwave, Raman, Rydberg
from pulser.devices import VirtualDevice


def gen_case(rng):
    reusable = rng.random() < 0.4
    n_dmm = rng.choice([1, 1, 2])
    with_mw = rng.random() < 0.3
    chans = {"ryd_a": Rydberg.Global(None, None), "ryd_b": Rydberg.Global(None, None), "ram": Raman.Local(None, None, max_targets=2)}
    if with_mw:
        chans["mw"] = Microwave.Global(None, None)
    dev = dict(reusable=reusable, n_dmm=n_dmm, with_mw=with_mw)
    ops = []
    dmm_ids = [f"dmm_{i}" for i in range(n_dmm)]
    names = ["a", "b", "c", "d"]
    for _ in range(rng.choice([3, 5, 7])):
        r = rng.random()
        if r < 0.4:
            ops.append(("declare", rng.choice(names), rng.choice(list(chans))))
        elif r < 0.65:
            ops.append(("detmap", rng.choice(dmm_ids)))
        elif r < 0.75:
            ops.append(("slm", rng.choice(dmm_ids)))
        elif r < 0.85:
            ops.append(("use_variable",))
        elif r < 0.90:
            ops.append(("measure",))
        else:
            ops.append(("inspect", rng.choice(["get_duration", "current_phase_ref"])))
    return dev, ops


def build(dev):
    chans = {"ryd_a": Rydberg.Global(None, None), "ryd_b": Rydberg.Global(None, None), "ram": Raman.Local(None, None, max_targets=2)}
    if dev["with_mw"]:
        chans["mw"] = Microwave.Global(None, None)
    d = VirtualDevice(name="t", dimensions=2, rydberg_level=60, channel_ids=tuple(chans), channel_objects=tuple(chans.values()),
                      dmm_objects=tuple(DMM(bottom_detuning=-100.0) for _ in range(dev["n_dmm"])), supports_slm_mask=True,
                      reusable_channels=dev["reusable"], **({"interaction_coeff_xy": 3700.0} if dev["with_mw"] else {}))
    reg = Register({"q0": (0.0, 0.0), "q1": (6.0, 0.0), "q2": (12.0, 0.0)})
    return d, reg, chans


def run_case(dev, ops):
    msgs = []
    d, reg, chans = build(dev)
    with warnings.catch_warnings():
        warnings.simplefilter("ignore")
        seq = Sequence(reg, d)
        dm = reg.define_detuning_map({"q0": 1.0, "q1": 0.5})
        used_ids, names = [], set()
        mode = None           # None / "xy" / "ising"
        slm = None            # dmm id of the configured SLM mask
        parametrized = False
        measured = False
        nvar = 0
        for i, op in enumerate(ops):
            why = None
            k = op[0]
            if k == "declare":
                _, name, cid = op
                is_mw = cid == "mw"
                if name in names:
                    why = f"channel name {name!r} is already in use"
                elif cid in used_ids and not dev["reusable"]:
                    why = f"channel id {cid!r} was already declared on a device without reusable channels"
                elif is_mw and (mode == "ising"):
                    why = "a Microwave channel is declared next to other channels / DMMs"
                elif (not is_mw) and mode == "xy":
                    why = "a non-Microwave channel is declared in XY mode"
                call = lambda: seq.declare_channel(name, cid, initial_target="q0" if cid == "ram" else None)   # noqa: E731
            elif k == "detmap":
                cid = op[1]
                if cid in used_ids and not dev["reusable"]:
                    why = f"DMM {cid!r} was already configured on a device without reusable channels"
                elif slm == cid and mode != "xy" and not dev["reusable"]:
                    why = f"DMM {cid!r} is already taken by the SLM mask on a device without reusable channels"
                elif mode == "xy":
                    why = "a DMM is configured in XY mode"
                call = lambda: seq.config_detuning_map(dm, cid)   # noqa: E731
            elif k == "slm":
                cid = op[1]
                # (a second SLM configuration / an SLM on an already configured DMM are not rules of the property: not judged)
                call = lambda: seq.config_slm_mask(["q0"], cid)   # noqa: E731
            elif k == "measure":
                if mode is None or measured:
                    continue
                call = lambda: seq.measure("XY" if mode == "xy" else ("ground-rydberg" if any(i.startswith("ryd") for i in used_ids) else "digital"))   # noqa: E731
            elif k == "use_variable":
                if not names:
                    continue
                nm = sorted(names)[0]
                nvar += 1

                def call(nm=nm, nvar=nvar):
                    v = seq.declare_variable(f"v{nvar}", dtype=int)
                    seq.delay(v, nm)
            else:
                if parametrized:
                    why = f"inspection call {op[1]} on a parametrized sequence"
                call = (lambda: seq.get_duration()) if op[1] == "get_duration" else (lambda: seq.current_phase_ref("q0", "ground-rydberg" if mode != "xy" else "XY"))   # noqa: E731
            if measured and k == "use_variable" and not parametrized:
                why = why or "the sequence has been measured: first use of a variable after measure() on a built sequence (adds a delay)"
            elif measured and k in ("declare", "detmap", "slm", "use_variable"):
                why = why or "the sequence has been measured (a timeline-changing call: it declares a channel / configures a DMM or the SLM mask / adds a delay)"
            try:
                call()
                ok = True
            except Exception:
                ok = False
            if ok and why:
                msgs.append(f"step {i} {op}: accepted although {why}")
                return msgs
            if not ok:
                continue
            if k == "declare":
                names.add(op[1])
                used_ids.append(op[2])
                mode = "xy" if op[2] == "mw" else "ising"
            elif k == "detmap":
                used_ids.append(op[1])
                mode = "ising"
            elif k == "slm":
                slm = slm or op[1]
            elif k == "use_variable":
                parametrized = True
            elif k == "measure":
                measured = True
            if seq.is_parametrized() != parametrized:
                msgs.append(f"step {i} {op}: is_parametrized() is {seq.is_parametrized()} but a variable was {'used' if parametrized else 'not used'}")
                return msgs
    return msgs


def _eom_dev():
    from pulser.channels.eom import RydbergBeam, RydbergEOM
    from pulser.devices import Device
    eom = lambda: RydbergEOM(mod_bandwidth=30.0, limiting_beam=RydbergBeam.RED, max_limiting_amp=50 * 2 * np.pi,   # noqa: E731
                             intermediate_detuning=800 * 2 * np.pi, controlled_beams=(RydbergBeam.BLUE,))
    return Device(name="TwoEOM", dimensions=2, rydberg_level=70, max_atom_num=20, max_radial_distance=50, min_atom_distance=4,
                  channel_objects=(Rydberg.Global(1000, 200, clock_period=1, min_duration=1, mod_bandwidth=4.0, eom_config=eom()),
                                   Rydberg.Local(2 * np.pi * 20, 2 * np.pi * 10, max_targets=2, fixed_retarget_t=0, clock_period=4,
                                                 min_retarget_interval=220, mod_bandwidth=4.0, eom_config=eom())))


def gen_eom_case(rng):
    ops = []
    for _ in range(rng.choice([3, 5, 8])):
        ops.append((rng.choice(["enable", "disable", "add", "add_eom", "delay", "query", "use_variable", "enable", "disable"]), rng.choice(["ch0", "ch1"])))
    return dict(kind="eom", param_first=rng.random() < 0.7), ops


def run_eom_case(dev, ops):
    """EOM typestate per channel on plain and parametrized sequences with two EOM channels: what a channel accepts depends on its own mode only"""
    msgs = []
    with warnings.catch_warnings():
        warnings.simplefilter("ignore")
        reg = Register.from_coordinates([(0, 0), (0, 6)], prefix="q")
        seq = Sequence(reg, _eom_dev())
        seq.declare_channel("ch0", "rydberg_global")
        seq.declare_channel("ch1", "rydberg_local", initial_target="q0")
        dt = seq.declare_variable("dt", dtype=int)
        if dev["param_first"]:
            seq.delay(dt, "ch0")
        mode = {"ch0": False, "ch1": False}
        for i, (k, ch) in enumerate(ops):
            dur = dt if seq.is_parametrized() else 100
            why = None
            if k == "enable":
                why = "EOM mode is enabled on a channel already in EOM mode" if mode[ch] else None
                call = lambda: seq.enable_eom_mode(ch, 1.0, 0.0)   # noqa: E731
            elif k == "disable":
                why = None if mode[ch] else "EOM mode is disabled on a channel that is not in EOM mode"
                call = lambda: seq.disable_eom_mode(ch)   # noqa: E731
            elif k == "add":
                why = "an ordinary pulse is accepted on a channel in EOM mode" if mode[ch] else None
                call = lambda: seq.add(Pulse.ConstantPulse(dur, 1.0, 0.0, 0.0), ch)   # noqa: E731
            elif k == "add_eom":
                why = None if mode[ch] else "an EOM pulse is accepted outside EOM mode"
                call = lambda: seq.add_eom_pulse(ch, dur, 0.0)   # noqa: E731
            elif k == "delay":
                call = lambda: seq.delay(dur, ch)   # noqa: E731
            elif k == "use_variable":
                call = lambda: seq.delay(dt, ch)   # noqa: E731
            else:
                got = seq.is_in_eom_mode(ch)
                if got != mode[ch]:
                    return [f"step {i} {(k, ch)}: is_in_eom_mode({ch!r}) is {got} but the channel's latest EOM control left it {'in' if mode[ch] else 'out of'} EOM mode"]
                continue
            try:
                call()
                ok = True
            except Exception as ex:
                ok, err = False, ex
            if ok and why:
                return [f"step {i} {(k, ch)}: accepted although {why}"]
            if not ok and why is None:
                return [f"step {i} {(k, ch)}: refused ({err!r}) although the channel's own mode allows it"]
            if ok and k == "enable":
                mode[ch] = True
            if ok and k == "disable":
                mode[ch] = False
            for c2 in ("ch0", "ch1"):
                if seq.is_in_eom_mode(c2) != mode[c2]:
                    return [f"step {i} {(k, ch)}: afterwards is_in_eom_mode({c2!r}) is {seq.is_in_eom_mode(c2)}, expected {mode[c2]}"]
    return msgs


_run_plain = run_case


def run_case(dev, ops):   # noqa: F811
    if dev.get("kind") == "eom":
        return run_eom_case(dev, ops)
    return _run_plain(dev, ops)


def run(rng, budget_s, known_match):
    import time
    t0 = time.time()
    failures, evals, samples, distinct = [], 0, [], set()
    scripted = [(dict(reusable=False, n_dmm=1, with_mw=False), [("declare", "a", "ryd_a"), ("measure",), ("use_variable",)]),
                (dict(reusable=False, n_dmm=1, with_mw=False), [("declare", "a", "ryd_a"), ("measure",), ("slm", "dmm_0"), ("detmap", "dmm_0"), ("declare", "b", "ram")]),
                (dict(reusable=False, n_dmm=1, with_mw=False), [("declare", "a", "ryd_a"), ("use_variable",), ("detmap", "dmm_0"), ("detmap", "dmm_0"), ("inspect", "get_duration")])]
    while time.time() - t0 < budget_s:
        dev, ops = scripted.pop(0) if scripted else (gen_eom_case(rng) if rng.random() < 0.35 else gen_case(rng))
        try:
            msgs = run_case(dev, ops)
        except Exception as ex:
            import traceback
            msgs = [f"harness error {ex!r} {traceback.format_exc()[-300:]}"]
        evals += len(ops)
        distinct.add(repr((dev, ops)))
        for m in msgs:
            failures.append(dict(prop="C13", clause=m, step=-1, op=["typestate"], known=known_match(m, "typestate", 0), case=dict(dev=dev, ops=ops)))
        if len(samples) < 2:
            samples.append(dict(dev=dev, ops=ops))
        if len([f for f in failures if not f.get("known")]) >= 3:
            break
    return failures, evals, len(distinct), samples


def replay_case(case):
    return run_case(case["dev"], [tuple(o) for o in case["ops"]])
