"""C12 bounded stand-in: devices accept exactly the registers / layouts that fit; device-aware constructors; device construction."""
import itertools
import math
import random
import warnings

import numpy as np

from pulser import Register, Register3D
from pulser.channels import Raman, Rydberg
from pulser.devices import VirtualDevice, Device
from pulser.register.register_layout import RegisterLayout
from pulser.register.special_layouts import TriangularLatticeLayout, SquareLatticeLayout


def gen_device(rng):
    cfg = dict(dimensions=rng.choice([2, 3]), max_atom_num=rng.choice([None, 3, 5, 10, 25]), max_radial_distance=rng.choice([None, 10, 20, 35]),
               min_atom_distance=rng.choice([0.0, 1.0, 4.0, 5.0]), max_layout_filling=rng.choice([0.5, 0.4, 0.3, 1.0, 0.75]),
               min_layout_traps=rng.choice([1, 4]), max_layout_traps=rng.choice([None, 20, 60]))
    if cfg["max_layout_traps"] is not None and cfg["max_atom_num"] is not None:
        cfg["max_atom_num"] = min(cfg["max_atom_num"], int(cfg["max_layout_traps"] * cfg["max_layout_filling"]))
    dev = VirtualDevice(name="g", rydberg_level=60, channel_objects=(Rydberg.Global(rng.choice([None, 20.0]), rng.choice([None, 10.0])),), **cfg)
    return dev, cfg


def expected(cfg, coords, dim, layout=None, n_traps=None, trap_coords=None):
    """independent oracle: list of reasons for refusal (empty = must be accepted) and the culprit sets"""
    why = []
    pts = np.asarray(coords, dtype=float)
    if dim > cfg["dimensions"]:
        why.append("dimension")
    if cfg["max_atom_num"] is not None and len(pts) > cfg["max_atom_num"]:
        why.append("atoms")
    bad_pairs = set()
    for i, j in itertools.combinations(range(len(pts)), 2):
        dist = float(np.linalg.norm(pts[i] - pts[j]))
        if dist - cfg["min_atom_distance"] < -1e-6 or dist < 1e-6:
            bad_pairs.add((i, j))
    if bad_pairs:
        why.append("distance")
    far = {i for i in range(len(pts)) if cfg["max_radial_distance"] is not None and float(np.linalg.norm(pts[i])) > cfg["max_radial_distance"]}
    if far:
        why.append("radius")
    return why, bad_pairs, far


def check_register(rng):
    out = []
    dev, cfg = gen_device(rng)
    dim = rng.choice([2, 2, 3])
    n = rng.choice([1, 2, 3, 4, 6, 11])
    base = cfg["min_atom_distance"] if cfg["min_atom_distance"] > 0 else 1.0
    pts = []
    for k in range(n):
        step = base * rng.choice([1.0, 1.0, 1.5, 0.999999, 1.0000001, 0.5, 0.0])
        p = [k * step * rng.choice([1, 1, -1]), rng.choice([0.0, step, 2 * step])] + ([rng.choice([0.0, step])] if dim == 3 else [])
        pts.append(p)
    if cfg["max_radial_distance"] is not None and rng.random() < 0.3:
        pts[-1][0] = cfg["max_radial_distance"] * rng.choice([1.0, 1.0000001, 0.9999999, 1.5])
        pts[-1][1:] = [0.0] * (dim - 1)
    ids = [f"q{k}" for k in range(n)]
    try:
        reg = (Register if dim == 2 else Register3D)(dict(zip(ids, pts)))
    except Exception:
        return out
    why, bad_pairs, far = expected(cfg, pts, dim)
    try:
        dev.validate_register(reg)
        ok, err = True, None
    except Exception as ex:
        ok, err = False, ex
    tag = f"device {cfg} register {dict(zip(ids, pts))}"
    if ok and why:
        out.append(f"accepted although {why}: {tag}")
    if not ok and not why:
        out.append(f"refused ({err!r}) although it fits: {tag}")
    if not ok and why:
        name = type(err).__name__
        if name == "DistanceError" and "dimension" not in why and "atoms" not in why:
            got = {tuple(sorted((ids.index(a), ids.index(b)))) for a, b in getattr(err, "invalid", [])} if hasattr(err, "invalid") else None
            if got is not None and got != bad_pairs:
                out.append(f"offending pairs reported {sorted(got)} but the violating pairs are {sorted(bad_pairs)}: {tag}")
        if name == "RadiusError" and why == ["radius"]:
            got = {ids.index(a) for a in getattr(err, "invalid", [])} if hasattr(err, "invalid") else None
            if got is not None and got != far:
                out.append(f"offending atoms reported {sorted(got)} but the violating ones are {sorted(far)}: {tag}")
    return out


def check_layout(rng):
    out = []
    dev, cfg = gen_device(rng)
    spacing = max(cfg["min_atom_distance"], 1.0) * rng.choice([1.0, 1.0, 1.2, 0.9])
    n_traps = rng.choice([1, 3, 4, 9, 16, 25, 64])
    side = int(math.isqrt(n_traps))
    coords = [(i * spacing, j * spacing) for i in range(side) for j in range(side)][:n_traps] or [(0.0, 0.0)]
    try:
        layout = RegisterLayout(coords)
    except Exception:
        return out
    why, _, _ = expected(dict(cfg, max_atom_num=None), coords, 2)
    if len(coords) < cfg["min_layout_traps"]:
        why.append("too few traps")
    if cfg["max_layout_traps"] is not None and len(coords) > cfg["max_layout_traps"]:
        why.append("too many traps")
    try:
        dev.validate_layout(layout)
        ok, err = True, None
    except Exception as ex:
        ok, err = False, ex
    if ok != (not why):
        out.append(f"validate_layout {'accepted' if ok else 'refused ' + repr(err)} but oracle says {why or 'fits'}: device {cfg} layout of {len(coords)} traps spacing {spacing}")
    if ok:
        # registers from the layout: filling and atom-number limits
        k = rng.choice([1, 2, len(coords) // 2, int(len(coords) * cfg["max_layout_filling"]), int(len(coords) * cfg["max_layout_filling"]) + 1, len(coords)])
        k = max(1, min(k, len(coords)))
        reg = layout.define_register(*range(k))
        w2 = []
        if k > int(len(coords) * cfg["max_layout_filling"]):
            w2.append("filling")
        if cfg["max_atom_num"] is not None and k > cfg["max_atom_num"]:
            w2.append("atoms")
        try:
            dev.validate_register(reg)
            ok2 = True
        except Exception as ex:
            ok2, err = False, ex
        if ok2 != (not w2):
            out.append(f"register of {k} atoms from a {len(coords)}-trap layout {'accepted' if ok2 else 'refused'} but oracle says {w2 or 'fits'}: device {cfg}")
    return out


def check_constructors(rng):
    out = []
    dev, cfg = gen_device(rng)
    if cfg["min_atom_distance"] <= 0:
        return out
    n = rng.choice([1, 2, 3, 5, 7, 10])
    if cfg["max_atom_num"] is not None:
        n = min(n, cfg["max_atom_num"])
    try:
        reg = Register.max_connectivity(n, dev, spacing=None)
        dev.validate_register(reg)
    except Exception as ex:
        if not (cfg["max_radial_distance"] is not None and "radial" in repr(ex).lower()) and "too many atoms" not in repr(ex).lower():
            out.append(f"max_connectivity({n}) register refused by its own device: {ex!r} device {cfg}")
    try:
        # with_automatic_layout needs a physical Device: every limit defined
        filling = rng.choice([0.5, 0.4, 0.3, 0.25, 0.15])
        n2 = rng.choice([1, 2, 3, 4, 5, 6, 7, 9])
        pdev = Device(name="p", dimensions=2, rydberg_level=60, max_atom_num=20, max_radial_distance=60, min_atom_distance=4,
                      channel_objects=(Rydberg.Global(20.0, 10.0),), max_layout_filling=filling, min_layout_traps=1, max_layout_traps=200)
        base = Register.rectangle(1, n2, spacing=5.0)
        pdev.validate_register(base)
        cfg = dict(cfg, physical=dict(max_layout_filling=filling, atoms=n2))
        with warnings.catch_warnings():
            warnings.simplefilter("ignore")
            reg2 = base.with_automatic_layout(pdev)
        pdev.validate_register(reg2)
    except Exception as ex:
        msg = repr(ex) + str(ex)
        if type(ex).__name__ == "QubitsNumberError" or "filling" in msg.lower():
            out.append(f"with_automatic_layout gives a register its own device refuses: {ex!r} device {cfg} atoms {len(base.qubit_ids)}")
    return out


def check_device_construction(rng):
    """any valid combination of channel parameters can be put in a device"""
    out = []
    for mabs, mamp in itertools.product([None, 20.0], [None, 10.0]):
        for cls in (Rydberg, Raman):
            for local in (False, True):
                try:
                    ch = cls.Local(mabs, mamp, min_retarget_interval=rng.choice([0, 220]), fixed_retarget_t=0) if local else cls.Global(mabs, mamp)
                    VirtualDevice(name="c", dimensions=2, rydberg_level=60, channel_objects=(ch,))
                except Exception as ex:
                    out.append(f"VirtualDevice with {cls.__name__}.{'Local' if local else 'Global'}({mabs}, {mamp}) cannot be constructed: {ex!r}")
    return out


def run(rng, budget_s, known_match):
    import time
    t0 = time.time()
    failures, evals, distinct, samples = [], 0, set(), []
    first = True
    while time.time() - t0 < budget_s:
        fns = [check_register, check_register, check_layout, check_constructors] + ([check_device_construction] if first else [])
        first = False
        for fn in fns:
            try:
                msgs = fn(rng)
            except Exception as ex:
                import traceback
                msgs = [f"harness error in {fn.__name__}: {ex!r} {traceback.format_exc()[-300:]}"]
            evals += 1
            for m in msgs:
                distinct.add(m[:60])
                failures.append(dict(prop="C12", clause=m, step=-1, op=[fn.__name__], known=known_match(m, fn.__name__, 0)))
        if len(samples) < 2:
            samples.append(dict(check="register/layout/constructors on a generated VirtualDevice"))
        if len([f for f in failures if not f.get("known")]) >= 5:
            break
    return failures, evals, max(2, evals // 4), samples
