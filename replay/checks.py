"""Concrete form of the contracts, evaluated on real Sequence objects (bounded stand-in / replay)."""
import json
import math
import os

import numpy as np

from pulser.pulse import Pulse
from pulser.channels.dmm import DMM

VERIF = os.path.dirname(os.path.dirname(os.path.abspath(__file__)))
PROP_GROUP = {"C19": ["C19"], "C08": ["C08"], "C06": ["C06"], "C12": ["C12"], "C18": ["C18"], "C16": ["C16"], "C03": ["C03"], "C10": ["C10"], "C02": ["C02"], "C01": ["C01"], "C09": ["C09"], "C07": ["C07"], "C13": ["C13"], "C15": ["C15"]}


def load_known(prop):
    p = os.path.join(VERIF, "known_findings.json")
    if not os.path.exists(p):
        return []
    return [k for k in json.load(open(p)) if k.get("status") == "known" and k["property"] == prop]


def slot_repr(s):
    t = s.type
    if isinstance(t, Pulse):
        t = ("pulse", t.duration, round(float(t.phase), 9), repr(t.amplitude), repr(t.detuning), round(float(t.post_phase_shift), 9))
    return (t, int(s.ti), int(s.tf), tuple(sorted(map(str, s.targets))))


def snapshot(seq):
    sch = {}
    for name, cs in seq._schedule.items():
        sch[name] = dict(slots=[slot_repr(s) for s in cs.slots],
                         eom=[(float(b.rabi_freq), float(b.detuning_on), float(b.detuning_off), b.ti, b.tf) for b in cs.eom_blocks],
                         waiting=getattr(cs, "_waiting_for_first_pulse", None))
    refs = {}
    for basis, d in seq._basis_ref.items():
        refs[basis] = {str(q): (list(r.phase._times), [round(float(x), 9) for x in r.phase._phases], r.last_used) for q, r in d.items()}
    return dict(schedule=sch, refs=refs, n_calls=len(seq._calls), calls=[(c.name, repr(c.args), repr(sorted(c.kwargs.items()))) for c in seq._calls],
                n_build=len(seq._to_build_calls), building=seq._building, in_xy=seq._in_xy, ising=seq._in_ising,
                measurement=getattr(seq, "_measurement", None), empty=seq._empty_sequence, mag=repr(seq._mag_field),
                slm=(repr(seq._slm_mask_targets), seq._slm_mask_dmm), variables=sorted(seq._variables))


def _eom_same_or_closed(b, a, allow_close):
    if a == b:
        return True
    if not allow_close or len(a) != len(b) or a[:-1] != b[:-1]:
        return False
    return b[-1][4] is None and a[-1][:4] == b[-1][:4]      # only the last block's end changed from open to closed


def _only_appended_delays(before, after, channels, allow_close=False):
    """the two snapshots differ only by delay slots appended to the given channels."""
    for k in before:
        if k != "schedule" and before[k] != after[k]:
            return False
    for name, b in before["schedule"].items():
        a = after["schedule"].get(name)
        if a is None:
            return False
        if a == b:
            continue
        if name not in channels or not _eom_same_or_closed(b["eom"], a["eom"], allow_close) or a["slots"][: len(b["slots"])] != b["slots"]:
            return False
        extra = a["slots"][len(b["slots"]):]
        if (not extra and a["eom"] == b["eom"]) or any(not (x[0] == "delay" or (isinstance(x[0], (tuple, list)) and x[0][0] == "pulse" and "ConstantWaveform" in str(x[0][3]))) for x in extra):
            return False
    return set(after["schedule"]) == set(before["schedule"])


def classify_known(prop, msg, op, cfg, before, after, known):
    """A failure is a listed finding only if it lies in that finding's witness class (concrete form)."""
    for k in known:
        pat = k.get("concrete_pattern")
        if not (pat and pat in msg):
            continue
        kid = k["id"]
        if kid.startswith("KF-C18"):
            # the variant device differs from the original only in the field(s) the finding names
            if op and op[0] == "final" and set(op[1].get("changed", [])) and set(op[1]["changed"]) <= set(k.get("fields", [])):
                return kid
            continue
        if kid == "KF-C01-1":
            ch = cfg["channels"].get(op[2]) if op and len(op) > 2 else None
            if ch and ch["max_duration"] is not None and ch["max_duration"] % ch["clock_period"] != 0:
                import harness
                d = harness.make_pulse(op[1]).duration
                if d <= ch["max_duration"]:
                    return kid
        elif kid in ("KF-C09-1", "KF-C09-2"):
            name = op[2]
            b, a = before["schedule"].get(name), after["schedule"].get(name)
            if b and a and len(a["slots"]) == len(b["slots"]) + 1 and _only_appended_delays(before, after, [name]) and (kid != "KF-C09-2" or op[3]):
                return kid
        elif kid == "KF-C09-4":
            if op[0] in ("enable_eom", "disable_eom", "modify_eom") and _only_appended_delays(before, after, [op[1]], allow_close=op[0] != "enable_eom"):
                return kid
        elif kid == "KF-C09-3":
            if _only_appended_delays(before, after, list(op[1])):
                return kid
        else:
            return kid
    return None


def stale_findings(prop, known, failures):
    return []


def chobj(seq, name):
    return seq._schedule[name].channel_obj


def fall(seq, name, slot, eom=None):
    cs = seq._schedule[name]
    if eom is None:
        eom = cs.in_eom_mode()
    return slot.type.fall_time(cs.channel_obj, in_eom_mode=eom)


# --------------------------------------------------------------------------
def check_C02(seq, before, after, op, ok, ctx, est):
    out = []
    for name, cs in seq._schedule.items():
        ch = cs.channel_obj
        slots = cs.slots
        if not slots:
            continue
        if not (slots[0].type == "target" and slots[0].ti == -1 and slots[0].tf == 0):
            out.append(f"{name}: first slot is not the initial target")
        for k, s in enumerate(slots):
            if k >= 1:
                if s.ti != slots[k - 1].tf:
                    out.append(f"{name}[{k}]: gap/overlap ti={s.ti} prev.tf={slots[k-1].tf}")
                if s.tf < s.ti:
                    out.append(f"{name}[{k}]: negative length")
                d = s.tf - s.ti
                if s.type == "delay" and d < ch.min_duration:
                    out.append(f"{name}[{k}]: delay of {d} < min_duration {ch.min_duration}")
                if s.type == "target" and d != 0 and d < ch.min_duration:
                    out.append(f"{name}[{k}]: retarget of {d} < min_duration {ch.min_duration}")
                if s.type != "target" and s.targets != slots[k - 1].targets:
                    out.append(f"{name}[{k}]: targets changed at a non-target slot")
            if s.tf < 0 or s.tf % ch.clock_period != 0:
                out.append(f"{name}[{k}]: boundary {s.tf} not a non-negative multiple of clock {ch.clock_period}")
            if isinstance(s.type, Pulse) and s.tf - s.ti != s.type.duration:
                out.append(f"{name}[{k}]: pulse of duration {s.type.duration} occupies {s.tf - s.ti}")
        # reported durations
        if cs.get_duration() != slots[-1].tf:
            out.append(f"{name}: get_duration() != end of last instruction")
        if seq.get_duration(name) != slots[-1].tf:
            out.append(f"{name}: Sequence.get_duration(channel) != end of last instruction")
        pulses = [s for s in slots if isinstance(s.type, Pulse)]
        exp = slots[-1].tf if not pulses else max(slots[-1].tf, pulses[-1].tf + fall(seq, name, pulses[-1]))
        if cs.get_duration(include_fall_time=True) != exp:
            out.append(f"{name}: get_duration(include_fall_time) = {cs.get_duration(True)} expected {exp}")
        # append-only
        old = before["schedule"].get(name, {}).get("slots", [])
        new = after["schedule"][name]["slots"]
        if new[: len(old)] != old and not (op[0] in ("declare", "dmm")):
            out.append(f"{name}: previously scheduled instructions moved or changed")
    if seq._schedule and not seq.is_parametrized():
        if seq.get_duration() != max(cs.slots[-1].tf if cs.slots else 0 for cs in seq._schedule.values()):
            out.append("sequence duration is not the maximum over channels")
    return out


def check_C01(seq, before, after, op, ok, ctx, est):
    out = []
    dev = ctx["dev"]
    for name, cs in seq._schedule.items():
        ch = cs.channel_obj
        nb = len(before["schedule"].get(name, {}).get("slots", []))
        for k, s in enumerate(cs.slots):
            if dev.max_sequence_duration is not None and s.tf > dev.max_sequence_duration:
                out.append(f"{name}[{k}]: ends at {s.tf} > max_sequence_duration {dev.max_sequence_duration}")
            if k < nb or not isinstance(s.type, Pulse):
                continue
            p = s.type
            amp = np.asarray(p.amplitude.samples.as_array(detach=True), dtype=float)
            det = np.asarray(p.detuning.samples.as_array(detach=True), dtype=float)
            if not (np.all(np.isfinite(amp)) and np.all(np.isfinite(det))):
                out.append(f"{name}[{k}]: non-finite samples")
                continue
            if ch.max_amp is not None and np.any(amp > ch.max_amp + 1e-9):
                out.append(f"{name}[{k}]: amplitude {amp.max()} above max_amp {ch.max_amp}")
            if np.any(amp < 0):
                out.append(f"{name}[{k}]: negative amplitude")
            if 0 < np.average(amp) < ch.min_avg_amp - 1e-12:
                out.append(f"{name}[{k}]: average amplitude {np.average(amp)} below min_avg_amp {ch.min_avg_amp}")
            if isinstance(ch, DMM):
                if np.any(np.round(det, 6) > 0):
                    out.append(f"{name}[{k}]: positive DMM detuning")
                w = list(cs.detuning_map.get_qubit_weight_map(seq.register.qubits).values()) if not seq.is_register_mappable() else []
                if w and ch.bottom_detuning is not None and max(w) * det.min() < ch.bottom_detuning - 1e-6:
                    out.append(f"{name}[{k}]: per-atom detuning below bottom_detuning")
                if w and ch.total_bottom_detuning is not None and sum(w) * det.min() < ch.total_bottom_detuning - 1e-6:
                    out.append(f"{name}[{k}]: total detuning below total_bottom_detuning")
            elif ch.max_abs_detuning is not None and np.any(np.round(np.abs(det), 6) > ch.max_abs_detuning):
                out.append(f"{name}[{k}]: |detuning| {np.abs(det).max()} above max_abs_detuning {ch.max_abs_detuning}")
            d = p.duration
            if d % ch.clock_period != 0 or d < ch.min_duration:
                out.append(f"{name}[{k}]: pulse duration {d} not a clock multiple >= min_duration")
            if ch.max_duration is not None and d > ch.max_duration:
                out.append(f"{name}[{k}]: pulse duration {d} above max_duration {ch.max_duration}")
    # acceptance: a pulse inside every limit is accepted, only lengthened to the next clock multiple
    if op[0] == "add" and not ok and op[2] in seq._schedule and not isinstance(chobj(seq, op[2]), DMM):
        import harness
        try:
            p = harness.make_pulse(op[1])
        except Exception:
            return out
        ch = chobj(seq, op[2])
        amp = np.asarray(p.amplitude.samples.as_array(detach=True), dtype=float)
        det = np.asarray(p.detuning.samples.as_array(detach=True), dtype=float)
        d = p.duration
        rounded = d if d % ch.clock_period == 0 else d + ch.clock_period - d % ch.clock_period
        inside = (np.all(np.isfinite(amp)) and (ch.max_amp is None or amp.max() <= ch.max_amp) and not (0 < np.average(amp) < ch.min_avg_amp)
                  and (ch.max_abs_detuning is None or np.round(np.abs(det), 6).max() <= ch.max_abs_detuning)
                  and d >= ch.min_duration and (ch.max_duration is None or rounded <= ch.max_duration))
        # (only claimed when nothing else can refuse the call: non-EOM, has target, same phase refs, fits the sequence)
        ctx.setdefault("refused_inside", []).append((inside, op))
    return out


def _most_recent_conflicting(seq, other, my_targets, protocol):
    for s in reversed(seq._schedule[other].slots):
        if isinstance(s.type, Pulse) and (protocol == "wait-for-all" or (s.targets & my_targets)):
            return s
    return None


def check_C03(seq, before, after, op, ok, ctx, est):
    out = []
    if op[0] in ("add", "eom_pulse", "add_dmm") and ok:
        name = op[2] if op[0] != "eom_pulse" else op[1]
        protocol = op[3] if op[0] != "eom_pulse" else op[4]
        if name not in seq._schedule:
            return out
        cs = seq._schedule[name]
        if name not in before["schedule"] or not before["schedule"][name]["slots"]:
            return out
        nb = len(before["schedule"][name]["slots"])
        new = cs.slots[nb:]
        pulse_slots = [s for s in new if isinstance(s.type, Pulse) and not cs.is_detuned_delay(s.type)]
        if not pulse_slots:
            return out
        ps = pulse_slots[-1]
        prev_end = before["schedule"][name]["slots"][-1][2]
        inserted = ps.ti - prev_end
        if protocol != "no-delay":
            for other in seq._schedule:
                if other == name:
                    continue
                obefore = before["schedule"][other]["slots"]
                # the other channel's state *before* the call is what the rule refers to
                q = None
                ocs = seq._schedule[other]
                for s in reversed(ocs.slots[: len(obefore)]):
                    if isinstance(s.type, Pulse) and (protocol == "wait-for-all" or (s.targets & ps.targets)):
                        q = s
                        break
                if q is not None:
                    f_now = q.type.fall_time(ocs.channel_obj, in_eom_mode=ocs.in_eom_mode())
                    f_no = q.type.fall_time(ocs.channel_obj, in_eom_mode=False)
                    if ps.ti < q.tf + min(f_now, f_no):
                        out.append(f"{name}: pulse starts at {ps.ti} before conflicting pulse on {other} has ended ({q.tf}+{min(f_now, f_no)})")
        if op[0] == "add" and est is not None and est != inserted:
            out.append(f"{name}: estimate_added_delay={est} but the add inserted {inserted}")
        # minimality: one clock period earlier would violate some lower bound
        ch = cs.channel_obj
        if inserted > 0 and op[0] == "add":
            low = ps.ti - ch.clock_period
            bounds = [prev_end + ch.min_duration]
            basis = ch.basis
            if not isinstance(ch, DMM):
                for qb in ps.targets:
                    ref = before["refs"].get(basis, {}).get(str(qb))
                    if ref:
                        bounds.append(ref[0][-1])
            if protocol != "no-delay":
                for other in seq._schedule:
                    if other == name:
                        continue
                    ocs = seq._schedule[other]
                    nob = len(before["schedule"][other]["slots"])
                    for s in ocs.slots[:nob]:
                        if isinstance(s.type, Pulse) and (protocol == "wait-for-all" or (s.targets & ps.targets)):
                            bounds.append(s.tf + s.type.fall_time(ocs.channel_obj, in_eom_mode=ocs.in_eom_mode()))
                prevp = [s for s in cs.slots[:nb] if isinstance(s.type, Pulse) and not cs.is_detuned_delay(s.type)]
                if prevp:
                    lp = prevp[-1]
                    eom = cs.in_eom_mode()
                    bounds.append(lp.tf + max(ch.phase_jump_time, 2 * ch.rise_time * eom) + lp.type.fall_time(ch, in_eom_mode=eom))
            if not any(low < max(b, prev_end + ch.min_duration) for b in bounds):
                out.append(f"{name}: pulse at {ps.ti} is not at the earliest allowed instant (bounds {sorted(set(bounds))}, clock {ch.clock_period})")
        if protocol == "no-delay" and op[0] == "add" and inserted > 0:
            pass
    if op[0] == "align" and ok:
        chs, at_rest = op[1], op[2]
        if any(c not in before["schedule"] or not before["schedule"][c]["slots"] for c in chs):
            return out
        ends = {c: seq._schedule[c].slots[-1].tf for c in chs if c in seq._schedule}
        T = max((len(before["schedule"][c]["slots"]) and _dur_before(seq, before, c, at_rest)) for c in ends) if ends else 0
        for c, e in ends.items():
            ch = chobj(seq, c)
            if e < T:
                out.append(f"align: channel {c} ends at {e} before the common time {T} (at_rest={at_rest})")
            elif e > T:
                d = e - before["schedule"][c]["slots"][-1][2]
                # allowed only because T - end was not a valid duration for this channel
                need = T - before["schedule"][c]["slots"][-1][2]
                valid = need % ch.clock_period == 0 and need >= ch.min_duration
                if need <= 0 or valid:
                    out.append(f"align: channel {c} ends at {e} after the common time {T} although {need} was a valid delay")
    return out


def _dur_before(seq, before, c, at_rest):
    """end of channel c before the call (plus pending fall time when at_rest), recomputed from the snapshot."""
    slots = before["schedule"][c]["slots"]
    end = slots[-1][2]
    if not at_rest:
        return end
    cs = seq._schedule[c]
    nb = len(slots)
    for s in reversed(cs.slots[:nb]):
        if isinstance(s.type, Pulse):
            return max(end, s.tf + s.type.fall_time(cs.channel_obj, in_eom_mode=cs.in_eom_mode()))
    return end


def check_C10(seq, before, after, op, ok, ctx, est):
    out = []
    for name, cs in seq._schedule.items():
        ch = cs.channel_obj
        slots = cs.slots
        nb = len(before["schedule"].get(name, {}).get("slots", []))
        for k in range(max(nb, 1), len(slots)):
            s = slots[k]
            if s.type == "target":
                prev_t = [x for x in slots[:k] if x.type == "target"][-1]
                if ch.min_retarget_interval is not None and s.tf - prev_t.tf < ch.min_retarget_interval:
                    out.append(f"{name}[{k}]: retarget ends {s.tf - prev_t.tf} after the previous target (< min_retarget_interval {ch.min_retarget_interval})")
                if ch.fixed_retarget_t and s.tf - s.ti < ch.fixed_retarget_t:
                    out.append(f"{name}[{k}]: retarget lasts {s.tf - s.ti} < fixed_retarget_t {ch.fixed_retarget_t}")
                pp = [x for x in slots[:k] if isinstance(x.type, Pulse)]
                if pp and s.ti < pp[-1].tf + pp[-1].type.fall_time(ch, in_eom_mode=False):
                    out.append(f"{name}[{k}]: retarget begins at {s.ti} before the previous pulse has ramped down ({pp[-1].tf}+{pp[-1].type.fall_time(ch)})")
            if isinstance(s.type, Pulse) and not cs.is_detuned_delay(s.type) and op[0] == "add" and ok and op[2] == name and op[3] != "no-delay":
                pp = [x for x in slots[:k] if isinstance(x.type, Pulse) and not cs.is_detuned_delay(x.type)]
                if pp and float(pp[-1].type.phase) != float(s.type.phase):
                    eom = cs.in_eom_mode()
                    need = pp[-1].tf + max(ch.phase_jump_time, 2 * ch.rise_time * eom) + pp[-1].type.fall_time(ch, in_eom_mode=eom)
                    if s.ti < need:
                        out.append(f"{name}[{k}]: phase changes but pulse starts at {s.ti} < {need} (phase-jump time + fall time)")
    if op[0] == "target" and ok:
        name = op[2]
        b = before["schedule"][name]["slots"]
        a = after["schedule"][name]["slots"]
        if b and tuple(sorted(map(str, op[1]))) == b[-1][3] and len(a) != len(b):
            out.append(f"{name}: retargeting to the same atoms inserted {a[len(b):]}")
    return out


def check_C09(seq, before, after, op, ok, ctx, est):
    out = []
    if not ok and before != after:
        diff = [k for k in before if before[k] != after[k]]
        out.append(f"call {op[0]} raised but changed the sequence ({diff})")
    if ok and op[0] in ("estimate", "readonly") and before != after:
        diff = [k for k in before if before[k] != after[k]]
        out.append(f"read-only operation {op[:2]} changed the sequence ({diff})")
    return out


# --------------------------------------------------------------------------
TWO_PI = 2 * math.pi


def _cong(a, b, tol=1e-7):
    d = (a - b) % TWO_PI
    return min(d, TWO_PI - d) < tol


def check_C07(seq, before, after, op, ok, ctx, est):
    out = []
    sums = ctx.setdefault("phase_sum", {})
    tainted = ctx.setdefault("phase_tainted", False)
    if op[0] in ("enable_eom", "eom_pulse", "disable_eom", "modify_eom") and ok:
        ctx["phase_tainted"] = True      # drift corrections: the expected sum is not tracked by this stand-in
        return out
    if ok and op[0] == "phase_shift":
        for q in op[2]:
            sums[(op[3], str(q))] = sums.get((op[3], str(q)), 0.0) + op[1]
            # the shift is timed at the end of the last pulse that targeted q in this basis (independent recomputation)
            used = [s.tf for cs in seq._schedule.values() if cs.channel_obj.basis == op[3]
                    for s in cs.slots if isinstance(s.type, Pulse) and not cs.is_detuned_delay(s.type) and q in s.targets]
            want = max(used) if used else 0
            times = after["refs"].get(op[3], {}).get(str(q), ([0], [0.0], 0))[0]
            if (op[1] % TWO_PI) != 0 and times[-1] < want:
                out.append(f"phase shift on {q}/{op[3]} is timed at {times[-1]}, before the end ({want}) of the last pulse that used it")
    if ok and op[0] == "add":
        name = op[2]
        cs = seq._schedule[name]
        nb = len(before["schedule"][name]["slots"])
        new = [s for s in cs.slots[nb:] if isinstance(s.type, Pulse)]
        if new:
            s = new[-1]
            basis = cs.channel_obj.basis
            import harness
            prog = harness.make_pulse(op[1])
            refs = {before["refs"][basis][str(q)][1][-1] for q in s.targets}
            if len(refs) == 1 and not _cong(float(s.type.phase), float(prog.phase) + refs.pop()):
                out.append(f"{name}: scheduled phase {float(s.type.phase)} is not programmed {float(prog.phase)} + reference")
            for q in s.targets:
                t_last = before["refs"][basis][str(q)][0][-1]
                if s.ti < t_last:
                    out.append(f"{name}: pulse starts at {s.ti} before the latest phase shift of {q} at {t_last}")
                pps = float(prog.post_phase_shift)
                if pps:
                    sums[(basis, str(q))] = sums.get((basis, str(q)), 0.0) + pps
    if not ctx.get("phase_tainted"):
        for basis, d in after["refs"].items():
            for q, (times, phases, last_used) in d.items():
                if not _cong(phases[-1], sums.get((basis, q), 0.0)):
                    out.append(f"phase reference of {q} in {basis} is {phases[-1]}, expected the sum of shifts {sums.get((basis, q), 0.0)} (mod 2pi)")
                if any(b <= a for a, b in zip(times, times[1:])) or times[0] != 0:
                    out.append(f"phase tracker of {q}/{basis} has unordered times {times}")
                if any(not (0 <= p < TWO_PI) for p in phases):
                    out.append(f"phase tracker of {q}/{basis} has a phase outside [0, 2pi)")
    return out


TIMELINE_OPS = ("declare", "dmm", "add", "add_dmm", "delay", "target", "align", "enable_eom", "eom_pulse", "disable_eom", "modify_eom", "measure")


def check_C13(seq, before, after, op, ok, ctx, est):
    out = []
    if before["measurement"] is not None and ok and op[0] in TIMELINE_OPS:
        out.append(f"{op[0]} accepted after measure()")
    name = None
    if op[0] in ("add", "add_dmm", "delay", "target"):
        name = op[2]
    elif op[0] in ("enable_eom", "eom_pulse", "disable_eom", "modify_eom"):
        name = op[1]
    if name in before["schedule"]:
        b = before["schedule"][name]
        in_eom = bool(b["eom"]) and b["eom"][-1][4] is None
        if ok and in_eom and op[0] in ("add", "target", "enable_eom"):
            out.append(f"{op[0]} accepted on {name} while it is in EOM mode")
        if ok and not in_eom and op[0] in ("eom_pulse", "disable_eom", "modify_eom"):
            out.append(f"{op[0]} accepted on {name} outside EOM mode")
        if ok and op[0] in ("add", "eom_pulse") and not b["slots"]:
            out.append(f"{op[0]} accepted on local channel {name} without a target")
    if op[0] == "declare" and ok and op[1] in before["schedule"]:
        out.append(f"channel name {op[1]} declared twice")
    if op[0] == "declare" and ok:
        ids = [cs.channel_id for cs in seq._schedule.values()]
        if len(ids) != len(set(ids)) and not ctx["dev"].reusable_channels:
            out.append(f"channel id declared twice on a device without reusable channels: {ids}")
    return out


def check_C15(seq, before, after, op, ok, ctx, est):
    out = []
    for name, cs in seq._schedule.items():
        ch = cs.channel_obj
        if not cs.eom_blocks:
            continue
        dur = cs.get_duration()
        for b in cs.eom_blocks:
            tf = b.tf if b.tf is not None else dur
            for s in cs.slots:
                if not isinstance(s.type, Pulse) or not (b.ti <= s.ti < tf):
                    continue
                amp = np.asarray(s.type.amplitude.samples.as_array(detach=True), dtype=float)
                det = np.asarray(s.type.detuning.samples.as_array(detach=True), dtype=float)
                sq_on = np.allclose(amp, float(b.rabi_freq)) and np.allclose(det, float(b.detuning_on))
                sq_off = np.allclose(amp, 0.0) and np.allclose(det, float(b.detuning_off))
                if not (sq_on or sq_off):
                    out.append(f"{name}: pulse at {s.ti} inside the EOM block from {b.ti} is neither the setpoint nor the off-detuning")
        # off-detuning is the allowed option closest to the requested optimum
    if ok and op[0] in ("enable_eom", "modify_eom") and op[1] in seq._schedule:
        cs = seq._schedule[op[1]]
        b = cs.eom_blocks[-1]
        eom = cs.channel_obj.eom_config
        opts = np.asarray(eom.detuning_off_options(float(b.rabi_freq), float(b.detuning_on)), dtype=float)
        want = op[4]
        best = opts[np.argmin(np.abs(opts - want))]
        if abs(float(b.detuning_off) - best) > 1e-9:
            out.append(f"{op[1]}: off-detuning {float(b.detuning_off)} is not the allowed option closest to {want} ({best})")
    if ok and op[0] == "enable_eom" and op[1] in before["schedule"]:
        name = op[1]
        cs = seq._schedule[name]
        b = before["schedule"][name]["slots"]
        if b and b[-1][2] > 0:
            ch = cs.channel_obj
            buf = cs.slots[-1]
            want = ch._eom_buffer_time
            exp = max(want, ch.min_duration)
            exp = exp if exp % ch.clock_period == 0 else exp + ch.clock_period - exp % ch.clock_period
            if buf.tf - buf.ti != exp:
                out.append(f"{name}: EOM start buffer lasts {buf.tf - buf.ti}, expected {exp}")
            pp = [x for x in cs.slots[: len(b)] if isinstance(x.type, Pulse)]
            if pp and buf.ti < pp[-1].tf + pp[-1].type.fall_time(ch, in_eom_mode=False):
                out.append(f"{name}: EOM start buffer begins at {buf.ti} before the previous pulse ramped down")
    return out


def boundaries(cfg, ops, build_device, apply_op, Register, Sequence):
    """instruction end times of the history when the device has no maximum sequence duration"""
    cfg0 = dict(cfg, max_sequence_duration=None)
    dev = build_device(cfg0)
    n = cfg["n_atoms"]
    reg = Register({f"q{i}": (6.0 * i, 0.0) for i in range(n)})
    seq = Sequence(reg, dev)
    ctx = dict(reg=reg, qids=[f"q{i}" for i in range(n)], cfg=cfg0, dev=dev)
    out = set()
    for op in ops:
        try:
            apply_op(seq, op, ctx)
        except Exception:
            pass
        for cs in seq._schedule.values():
            for sl in cs.slots:
                if sl.tf > 0:
                    out.add(int(sl.tf))
    return out


# --------------------------------------------------------------------------
def _timeline(seq):
    return {name: [slot_repr(s) for s in cs.slots] for name, cs in seq._schedule.items()}


def final_C18(seq, cfg, ctx, build_device, rng):
    """switch the finished sequence to variants of its own device"""
    import copy
    out = []
    if seq.is_parametrized() or not seq._schedule:
        return out
    base = _timeline(seq)
    uses_eom = any(cs.eom_blocks for cs in seq._schedule.values())
    variants = [([], lambda c: None)]
    names = list(cfg["channels"])
    nm = names[rng.randrange(len(names))]

    def setf(field, val):
        def f(c):
            c["channels"][nm][field] = val
        return f
    ch = cfg["channels"][nm]
    variants += [
        (["min_duration"], setf("min_duration", {1: 4, 4: 16, 5: 20, 16: 4, 20: 4}.get(ch["min_duration"], 8))),
        (["custom_phase_jump_time"], setf("custom_phase_jump_time", 0 if ch["custom_phase_jump_time"] != 0 else 80)),
        (["max_duration"], setf("max_duration", 200 if ch["max_duration"] != 200 else 300)),
        (["clock_period"], setf("clock_period", {1: 4, 2: 4, 4: 8, 5: 4, 8: 4}[ch["clock_period"]])),
        (["mod_bandwidth"], setf("mod_bandwidth", 8.0 if ch["mod_bandwidth"] != 8.0 else 4.0)),
        (["max_amp"], setf("max_amp", 5.0)),
    ]
    if ch.get("eom"):
        variants.append((["eom.custom_buffer_time"], lambda c: c["channels"][nm]["eom"].__setitem__("custom_buffer_time", 100 if ch["eom"]["custom_buffer_time"] != 100 else 240)))
    if ch["local"]:
        variants.append((["fixed_retarget_t"], setf("fixed_retarget_t", 40 if ch["fixed_retarget_t"] != 40 else 0)))
        variants.append((["min_retarget_interval"], setf("min_retarget_interval", 0 if ch["min_retarget_interval"] != 0 else 220)))
        variants.append((["min_retarget_interval"], setf("min_retarget_interval", ch["fixed_retarget_t"])))
    for changed, mut in variants:
        cfg2 = copy.deepcopy(cfg)
        mut(cfg2)
        c2 = cfg2["channels"][nm]
        if c2["max_duration"] is not None and c2["max_duration"] < c2["min_duration"]:
            continue
        try:
            dev2 = build_device(cfg2)
        except Exception:
            continue
        extra = dict(changed=changed, channel=nm, uses_eom=uses_eom)
        for strict in (True, False):
            try:
                import warnings
                with warnings.catch_warnings():
                    warnings.simplefilter("ignore")
                    new = seq.switch_device(dev2, strict=strict)
            except Exception:
                continue
            if strict:
                if _timeline(new) != base:
                    out.append((f"strict switch_device to a device differing in {changed} on {nm} changed the timeline", extra))
            else:
                # the result must satisfy the new device's limits
                nctx = dict(ctx, dev=dev2)
                snap0 = dict(schedule={n_: dict(slots=[]) for n_ in new._schedule}, refs={})
                for m in check_C01(new, snap0, snapshot(new), ("final",), True, nctx, None) + check_C02(new, snapshot(new), snapshot(new), ("final",), True, nctx, None):
                    if "moved or changed" in m:
                        continue
                    out.append((f"non-strict switch_device (variant {changed} on {nm}) gives a sequence violating the new device: {m}", extra))
    # switch_register with the same ids keeps the timeline
    try:
        from pulser import Register
        reg2 = Register({q: (float(p[0]) + 0.0, float(p[1]) + 1.0) for q, p in ctx["reg"].qubits.items()})
        new = seq.switch_register(reg2)
        if _timeline(new) != base:
            out.append(("switch_register to a register with the same ids changed the timeline", dict(changed=["register"], channel=None)))
    except Exception:
        pass
    return out


# --------------------------------------------------------------------------
def final_C09(seq, cfg, ctx, build_device, rng):
    """copies made through build / switch_register to an identical register / serialise + deserialise have the identical timeline,
    and are independent of the original: a later successful call on either side changes only that side."""
    out = []
    if seq.is_parametrized() or not seq._schedule or (len(seq._calls) % 5) > 1:      # (two histories in five: the copies are comparatively slow)
        return out
    base = _timeline(seq)
    copies = []
    try:
        copies.append(("build()", seq.build(**{name: 1 for name in seq.declared_variables})))
    except Exception as ex:
        out.append((f"build() of a built sequence raised {ex!r}"[:200], {}))
    try:
        from pulser import Register
        copies.append(("switch_register(identical register)", seq.switch_register(Register({q: (float(p[0]), float(p[1])) for q, p in ctx["reg"].qubits.items()}))))
    except Exception as ex:
        out.append((f"switch_register to an identical register raised {ex!r}"[:200], {}))
    try:
        from pulser import Sequence as _S
        s_ = seq.to_abstract_repr()
        copies.append(("deserialise(serialise())", _S.from_abstract_repr(s_)))
    except Exception:
        pass        # (what can be serialised is C04's business)
    for how, cp in copies:
        if how != "deserialise(serialise())" and _timeline(cp) != base:
            out.append((f"the copy made through {how} has a different timeline", {"how": how}))
        if how == "deserialise(serialise())":
            a = {n: [(x[1], x[2], x[3]) for x in v] for n, v in _timeline(cp).items()} if isinstance(_timeline(cp), dict) else None
            b = {n: [(x[1], x[2], x[3]) for x in v] for n, v in base.items()} if isinstance(base, dict) else None
            if a is not None and a != b:
                out.append((f"the copy made through {how} has different slot boundaries / targets", {"how": how}))
    # independence (both directions), through the public API only
    for how, cp in copies:
        before_o, before_c = snapshot(seq), snapshot(cp)
        try:
            cp.declare_variable("zz_copy")
            ch0 = sorted(cp._schedule)[0]
            if not getattr(cp, "is_measured")():
                cp.delay(16 * 5, ch0)
        except Exception:
            pass
        if snapshot(seq) != before_o:
            diff = [k for k in before_o if before_o[k] != snapshot(seq)[k]]
            out.append((f"a call on the copy made through {how} changed the original ({diff})", {"how": how}))
            break
        before_c = snapshot(cp)
        try:
            seq.declare_variable("zz_orig_" + str(len(seq._variables)))
        except Exception:
            pass
        if snapshot(cp) != before_c:
            diff = [k for k in before_c if before_c[k] != snapshot(cp)[k]]
            out.append((f"a call on the original changed the copy made through {how} ({diff})", {"how": how}))
            break
    return out


def final_C15(seq, cfg, ctx, build_device, rng):
    """phase-drift bookkeeping (drift histories only: every EOM control and EOM pulse asks for the correction, no other phase shifts):
    once the last EOM block is closed, the phase reference of the channel's targets equals, modulo 2 pi, the phase accumulated by the
    programmed detuning outside real pulses - i.e. the integral of the detuning over every detuned delay / buffer of the channel."""
    out = []
    if not cfg.get("all_drift") or seq.is_parametrized():
        return out
    for name, cs in seq._schedule.items():
        if not cs.eom_blocks or cs.eom_blocks[-1].tf is None:
            continue
        ch = cs.channel_obj
        acc = 0.0
        for s in cs.slots:
            if isinstance(s.type, Pulse) and cs.is_detuned_delay(s.type):
                det = np.asarray(s.type.detuning.samples.as_array(detach=True), dtype=float)
                acc += float(det.sum()) * 1e-3
        tg = sorted(cs.slots[-1].targets)
        for q in tg[:1]:
            ref = float(seq.current_phase_ref(q, ch.basis))
            d = (ref - acc) % TWO_PI
            d = min(d, TWO_PI - d)
            if d > 1e-6:
                out.append((f"{name}: with phase-drift correction everywhere, the phase reference {ref:.6f} differs from the phase accumulated by the off-detuning "
                            f"outside pulses {acc % TWO_PI:.6f} by {d:.6f} rad", {"channel": name}))
    return out


def final_C06(seq, cfg, ctx, build_device, rng):
    """sampling renders the schedule exactly (independent re-rendering from the slots)"""
    from pulser.sampler import sample
    out = []
    if seq.is_parametrized() or not seq._schedule or seq.get_duration() == 0:
        return out
    try:
        ss = sample(seq)
    except Exception as ex:
        return [(f"sampling raised {ex!r}", {})]
    total = seq.get_duration()
    for name, cs in seq._schedule.items():
        chs = ss.channel_samples[name]
        dur = cs.get_duration()
        amp = np.asarray(chs.amp.as_array(detach=True), dtype=float)
        det = np.asarray(chs.det.as_array(detach=True), dtype=float)
        ph = np.asarray(chs.phase.as_array(detach=True), dtype=float)
        if not (len(amp) == len(det) == len(ph) == dur):
            out.append((f"{name}: sample arrays have lengths {len(amp)},{len(det)},{len(ph)} for channel duration {dur}", {}))
            continue
        e_amp, e_det = np.zeros(dur), np.zeros(dur)
        for s in cs.slots:
            if isinstance(s.type, Pulse):
                e_amp[s.ti:s.tf] += np.asarray(s.type.amplitude.samples.as_array(detach=True), dtype=float)
                e_det[s.ti:s.tf] += np.asarray(s.type.detuning.samples.as_array(detach=True), dtype=float)
        if not np.allclose(amp, e_amp, atol=1e-9):
            out.append((f"{name}: amplitude samples differ from the scheduled pulses at t={int(np.argmax(np.abs(amp - e_amp)))}", {}))
        if not np.allclose(det, e_det, atol=1e-9):
            out.append((f"{name}: detuning samples differ from the scheduled pulses at t={int(np.argmax(np.abs(det - e_det)))}", {}))
        for s in cs.slots:
            if isinstance(s.type, Pulse) and not cs.is_detuned_delay(s.type) and s.tf > s.ti:
                if not np.allclose(ph[s.ti:s.tf], float(s.type.phase), atol=1e-9):
                    out.append((f"{name}: phase over the pulse at [{s.ti},{s.tf}) is not the pulse's phase", {}))
        # extension only pads
        ext = chs.extend_duration(dur + 37)
        a2 = np.asarray(ext.amp.as_array(detach=True), dtype=float)
        d2 = np.asarray(ext.det.as_array(detach=True), dtype=float)
        p2 = np.asarray(ext.phase.as_array(detach=True), dtype=float)
        off = float(cs.eom_blocks[-1].detuning_off) if (cs.eom_blocks and cs.eom_blocks[-1].tf is None) else 0.0
        if not (np.array_equal(a2[:dur], amp) and np.all(a2[dur:] == 0) and np.array_equal(d2[:dur], det) and np.allclose(d2[dur:], off)
                and np.array_equal(p2[:dur], ph) and np.allclose(p2[dur:], ph[-1] if dur else 0.0)):
            out.append((f"{name}: extend_duration does not only pad (zeros, off-detuning {off}, last phase)", {}))
    # per-atom view
    try:
        nd = ss.to_nested_dict(all_local=True)
    except Exception as ex:
        return out + [(f"to_nested_dict raised {ex!r}", {})]
    for basis, per_q in nd["Local"].items():
        for q, arrs in per_q.items():
            e_amp, e_det = np.zeros(total), np.zeros(total)
            for name, cs in seq._schedule.items():
                if cs.channel_obj.basis != basis:
                    continue
                w = 1.0
                if isinstance(cs.channel_obj, DMM):
                    w = cs.detuning_map.get_qubit_weight_map(seq.register.qubits).get(q, 0.0)
                for s in cs.slots:
                    if isinstance(s.type, Pulse) and q in s.targets:
                        e_amp[s.ti:s.tf] += np.asarray(s.type.amplitude.samples.as_array(detach=True), dtype=float)
                        e_det[s.ti:s.tf] += w * np.asarray(s.type.detuning.samples.as_array(detach=True), dtype=float)
                # a channel that ends before the sequence while still in EOM mode idles at the off-detuning (padding rule);
                # the padded stretch belongs to no slot, so it is not attributed to any atom

            # idle EOM detuning between pulses is scheduled as detuned-delay pulses, already included above
            covered = np.zeros(total, dtype=bool)
            for name, cs in seq._schedule.items():
                if cs.channel_obj.basis == basis:
                    for s in cs.slots:
                        if isinstance(s.type, Pulse) and q in s.targets:
                            covered[s.ti:s.tf] = True
            # compared where some pulse targets the atom (output-modulation tails and EOM idle padding are not "pulses")
            ga, gd = np.asarray(arrs["amp"], dtype=float), np.asarray(arrs["det"], dtype=float)
            det_cmp = covered.copy()
            for name, cs in seq._schedule.items():
                if cs.channel_obj.basis == basis and cs.eom_blocks and cs.eom_blocks[-1].tf is None:
                    det_cmp[cs.get_duration():] = False     # idle off-detuning padding of a channel still in EOM mode (inside a fall-time tail)
            if not np.allclose(ga[covered], e_amp[covered], atol=1e-9):
                out.append((f"atom {q}/{basis}: amplitude is not the sum of the pulses that target it", {}))
            if not np.allclose(gd[det_cmp], e_det[det_cmp], atol=1e-9):
                out.append((f"atom {q}/{basis}: detuning is not the (weighted) sum of the pulses that target it", {}))
            if np.any(np.abs(ga[~covered]) > 1e-9):
                out.append((f"atom {q}/{basis}: amplitude attributed at a time when no pulse targets it", {}))
    return out
