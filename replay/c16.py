"""C16 bounded stand-in: concrete waveform / pulse contracts on grids of parameters (function level, no sequence)."""
import math
import random

import numpy as np

from pulser import Pulse
from pulser.waveforms import (BlackmanWaveform, CompositeWaveform, ConstantWaveform, CustomWaveform, InterpolatedWaveform,
                              KaiserWaveform, RampWaveform)


def arr(w):
    return np.asarray(w.samples.as_array(detach=True), dtype=float)


def make(kind, d, rng):
    if kind == "const":
        return ConstantWaveform(d, rng.choice([0.0, 1.0, -2.5, 15.7])), ("const",)
    if kind == "ramp":
        a, b = rng.choice([0.0, 1.0, -3.0]), rng.choice([2.0, -1.0, 0.0, 10.0])
        return RampWaveform(d, a, b), ("ramp", a, b)
    if kind == "black":
        a = rng.choice([1.0, math.pi, -2.0])
        return BlackmanWaveform(d, a), ("black", a)
    if kind == "kaiser":
        a, beta = rng.choice([1.0, -math.pi]), rng.choice([14.0, 5.0, 0.0])
        return KaiserWaveform(d, a, beta), ("kaiser", a, beta)
    if kind == "interp":
        vals = [rng.choice([0.0, 1.0, 3.0, -1.0]) for _ in range(min(max(d, 2), rng.choice([2, 3, 4, 5])))]
        # every constructor option at default and non-default values (times, interpolator, interpolator options)
        kw = {}
        if rng.random() < 0.3 and len(vals) >= 3 and d >= 9:
            ts = [0.0] + sorted(rng.sample([0.125, 0.25, 0.375, 0.5, 0.625, 0.75, 0.875], len(vals) - 2)) + [1.0]
            kw["times"] = ts
        if rng.random() < 0.5:
            kinds_ok = ["linear", "previous", "next", "nearest"] + (["quadratic"] if len(vals) >= 3 else []) + (["cubic"] if len(vals) >= 4 else [])
            kw.update(interpolator="interp1d", kind=rng.choice(kinds_ok))
        return InterpolatedWaveform(d, vals, **kw), ("interp", vals, sorted(kw.items(), key=str))
    if kind == "custom":
        s = [rng.choice([0.0, 0.5, -1.0, 2.0]) for _ in range(d)]
        return CustomWaveform(s), ("custom", s)
    if kind == "comp":
        w1, _ = make(rng.choice(["const", "ramp"]), max(2, d // 2), rng)
        w2, _ = make(rng.choice(["const", "ramp", "black"]), max(4, d - d // 2), rng)
        return CompositeWaveform(w1, w2), ("comp", w1.duration, w2.duration)
    raise ValueError(kind)


def check_waveform(kind, d, rng):
    out = []
    try:
        w, par = make(kind, d, rng)
    except Exception as ex:
        return [f"{kind}({d}) cannot be constructed: {ex!r}"] if kind not in ("interp",) or d >= 2 else []
    s = arr(w)
    tag = f"{kind}{par[1:]} duration={d}"
    if len(s) != w.duration:
        out.append(f"{tag}: {len(s)} samples for duration {w.duration}")
    if not np.all(np.isfinite(s)):
        out.append(f"{tag}: non-finite samples")
        return out
    if kind == "const" and not np.all(s == s[0]):
        out.append(f"{tag}: not constant")
    if kind == "ramp":
        a, b = par[1], par[2]
        if not (math.isclose(s[0], a, abs_tol=1e-9) and math.isclose(s[-1], b, abs_tol=1e-9)):
            out.append(f"{tag}: end points {s[0]}, {s[-1]} are not start/stop")
        if s.min() < min(a, b) - 1e-9 or s.max() > max(a, b) + 1e-9:
            out.append(f"{tag}: leaves the interval of its end points")
    if kind in ("black", "kaiser"):
        if not math.isclose(float(np.sum(s)) * 1e-3, par[1], rel_tol=1e-6, abs_tol=1e-9):
            out.append(f"{tag}: integral {np.sum(s) * 1e-3} is not the area {par[1]}")
    if kind == "comp":
        if w.duration != par[1] + par[2]:
            out.append(f"{tag}: duration is not the sum of the components")
    # indexing against the language definition
    n = w.duration
    for i in (0, n - 1, -1, -n, n, -n - 1):
        try:
            v = float(w[i])
            if not (-n <= i < n) or not math.isclose(v, s[i], rel_tol=0, abs_tol=1e-12):
                out.append(f"{tag}: w[{i}] = {v} but samples[{i}] = {s[i] if -n <= i < n else 'out of range'}")
        except IndexError:
            if -n <= i < n:
                out.append(f"{tag}: w[{i}] raised IndexError")
    for sl in (slice(None, None), slice(1, None), slice(None, -1), slice(-3, 2), slice(5, 2), slice(-n - 5, n + 5), slice(2, 2)):
        got = np.asarray(w[sl].as_array(detach=True) if hasattr(w[sl], "as_array") else w[sl], dtype=float)
        if not np.array_equal(got, s[sl]):
            out.append(f"{tag}: w[{sl}] differs from samples[{sl}]")
    # change_duration keeps the defining parameters
    if kind in ("const", "ramp", "black", "kaiser", "interp"):
        d2 = d + rng.choice([1, 3, 4])
        w2 = w.change_duration(d2)
        if w2.duration != d2:
            out.append(f"{tag}: change_duration({d2}) has duration {w2.duration}")
        same = {"const": lambda: float(w2._value) == float(w._value),
                "ramp": lambda: float(w2._start) == float(w._start) and float(w2._stop) == float(w._stop),
                "black": lambda: float(w2._area) == float(w._area),
                "kaiser": lambda: float(w2._area) == float(w._area) and float(w2._beta) == float(w._beta),
                "interp": lambda: (np.array_equal(np.asarray(w2._values), np.asarray(w._values)) and np.array_equal(np.asarray(w2._times), np.asarray(w._times))
                                   and repr(sorted(w2._kwargs.items(), key=str)) == repr(sorted(w._kwargs.items(), key=str)))}[kind]()
        if not same:
            out.append(f"{tag}: change_duration does not keep the defining parameters")
    # scaling
    for k in (2.0, -1.0, 0.5):
        ws = arr(w * k)
        if not np.allclose(ws, s * k, rtol=1e-9, atol=1e-9):
            out.append(f"{tag}: (w*{k}) samples are not scaled")
    if not np.allclose(arr(-w), -s):
        out.append(f"{tag}: -w is not negated")
    if not np.allclose(arr(w / 2.0), s / 2.0):
        out.append(f"{tag}: w/2 is not halved")
    try:
        w / 0.0
        out.append(f"{tag}: division by zero accepted")
    except ZeroDivisionError:
        pass
    return out


def check_from_max_val(cls, rng):
    out = []
    mv = rng.choice([1.0, 2.5, 5.0, 10.0, 20.0, 39.0, 60.0, -7.0, -39.0])
    area = rng.choice([0.5, 1.0, math.pi, 6.0, 10.0]) * (1 if mv > 0 else -1)
    kw = {} if cls is BlackmanWaveform else {"beta": rng.choice([14.0, 5.0, 8.0, 2.0, 3.0])}
    w = cls.from_max_val(mv, area, **kw)
    s = arr(w)
    if np.max(np.abs(s)) > abs(mv) * (1 + 1e-9):
        out.append(f"{cls.__name__}.from_max_val({mv}, {area}, {kw}): peak {np.max(np.abs(s))} exceeds the maximum value")
    if w.duration > 2:
        # "as close to it as whole nanoseconds allow": one nanosecond shorter would exceed the maximum value
        shorter = cls(w.duration - 1, area, **kw) if cls is KaiserWaveform else cls(w.duration - 1, area)
        if np.all(np.isfinite(arr(shorter))) and np.max(np.abs(arr(shorter))) <= abs(mv) * (1 - 1e-12):
            out.append(f"{cls.__name__}.from_max_val({mv}, {area}, {kw}): {w.duration} ns chosen although {w.duration - 1} ns also stays within the maximum")
    return out


def check_pulse(rng):
    out = []
    d = rng.choice([4, 16, 100])
    ph = rng.choice([0.0, 1.0, -1.0, 7.0, 2 * math.pi, -1e-20, 4 * math.pi])
    p = Pulse.ConstantPulse(d, rng.choice([0.0, 1.0]), rng.choice([0.0, -3.0]), ph, post_phase_shift=rng.choice([0.0, -2.0, 9.0]))
    if not (0 <= float(p.phase) < 2 * math.pi):
        out.append(f"Pulse phase {float(p.phase)!r} for programmed {ph!r} is outside [0, 2pi)")
    if not (0 <= float(p.post_phase_shift) < 2 * math.pi):
        out.append(f"Pulse post_phase_shift {p.post_phase_shift!r} is outside [0, 2pi)")
    if p.amplitude.duration != p.detuning.duration:
        out.append("Pulse waveforms differ in length")
    try:
        Pulse.ConstantPulse(d, -1.0, 0.0, 0.0)
        out.append("negative amplitude accepted")
    except ValueError:
        pass
    # arbitrary phase: detuning and offset reproduce the phase waveform
    phw = RampWaveform(d, rng.choice([0.0, 1.0]), rng.choice([2.0, -1.0]))
    q = Pulse.ArbitraryPhase(ConstantWaveform(d, 1.0), phw)
    det = arr(q.detuning)
    rec = float(q.phase) - np.cumsum(det) * 1e-3
    want = arr(phw)
    diff = (rec - want + math.pi) % (2 * math.pi) - math.pi
    if np.max(np.abs(diff[1:])) > 1e-6:
        out.append(f"ArbitraryPhase: reconstructed phase deviates by {np.max(np.abs(diff))}")
    return out


def run(rng, budget_s, known_match):
    import time
    t0 = time.time()
    failures, evals, distinct, samples = [], 0, set(), []
    kinds = ["const", "ramp", "black", "kaiser", "interp", "custom", "comp"]
    # exhaustive small durations first, then random
    grid = [(k, d) for d in range(1, 41) for k in kinds]
    while time.time() - t0 < budget_s:
        if grid:
            kind, d = grid.pop(0)
        else:
            kind, d = rng.choice(kinds), rng.choice([41, 50, 64, 100, 101, 200, 333, 1000])
        try:
            msgs = check_waveform(kind, d, rng)
        except Exception as ex:
            msgs = [f"{kind} duration={d}: harness error {ex!r}"]
        evals += 1
        distinct.add((kind, d))
        if len(samples) < 3:
            samples.append(dict(kind=kind, duration=d))
        for m in msgs:
            failures.append(dict(prop="C16", clause=m, step=-1, op=[kind, d], known=known_match(m, kind, d)))
        if evals % 3 == 0:
            for m in check_pulse(rng) + check_from_max_val(rng.choice([BlackmanWaveform, KaiserWaveform, KaiserWaveform]), rng):
                failures.append(dict(prop="C16", clause=m, step=-1, op=["pulse/from_max_val"], known=known_match(m, "pulse", 0)))
            evals += 2
        if len([f for f in failures if not f.get("known")]) >= 5:
            break
    return failures, evals, len(distinct), samples
