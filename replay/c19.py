"""C19 bounded stand-in: canonical trap numbering; registers, maps and layouts agree."""
import random

import numpy as np

from pulser.register.register_layout import RegisterLayout
from pulser.register.mappable_reg import MappableRegister


def gen_coords(rng, dim):
    n = rng.choice([2, 3, 5, 8, 12])
    vals = [0.0, 1.0, 2.5, -3.0, 4.0, 7.25, -1.5]
    pts = {}
    while len(pts) < n:
        p = tuple(rng.choice(vals) + rng.choice([0.0, 0.0, 1e-7, -2e-7]) for _ in range(dim))
        pts.setdefault(tuple(round(x, 6) for x in p), p)       # distinct after rounding to the 1e-6 precision
    return [list(p) for p in pts.values()]


def check_layout(rng):
    out = []
    dim = rng.choice([2, 2, 3])
    pts = gen_coords(rng, dim)
    l1 = RegisterLayout(pts)
    shuffled = pts[:]
    rng.shuffle(shuffled)
    l2 = RegisterLayout(shuffled)
    sc = np.asarray(l1.sorted_coords, dtype=float)
    exp = sorted([tuple(round(x, 6) + 0.0 for x in p) for p in pts])
    if [tuple(r) for r in sc.tolist()] != [tuple(e) for e in exp]:
        out.append(f"trap order is not ascending x, then y, then z for {pts}")
    if not np.array_equal(sc, np.asarray(l2.sorted_coords, dtype=float)):
        out.append(f"trap numbering depends on the input order: {pts}")
    if l1 != l2 or hash(l1) != hash(l2) or l1.static_hash() != l2.static_hash():
        out.append(f"equality / hash depend on the input order: {pts}")
    # coordinates -> ids -> coordinates
    ids = l1.get_traps_from_coordinates(*[sc[i] for i in range(len(sc))])
    if list(ids) != list(range(len(sc))):
        out.append(f"looking up the sorted coordinates returns {ids}")
    k = rng.randrange(1, len(pts) + 1)
    chosen = rng.sample(range(len(pts)), k)
    qids = [f"a{j}" for j in range(k)]
    rng.shuffle(qids)
    reg = l1.define_register(*chosen, qubit_ids=qids)
    for q, t in zip(qids, chosen):
        c = np.asarray(reg.qubits[q].as_array() if hasattr(reg.qubits[q], "as_array") else reg.qubits[q], dtype=float)
        if not np.allclose(c, sc[t], atol=0):
            out.append(f"define_register puts {q} at {c}, not on trap {t} = {sc[t]}")
    if list(reg.qubit_ids) != qids:
        out.append("define_register does not keep the given qubit order")
    for bad in ([chosen[0], chosen[0]], [len(pts)], [-1] if False else [len(pts) + 3]):
        try:
            l1.define_register(*bad)
            out.append(f"define_register accepted invalid trap ids {bad}")
        except ValueError:
            pass
    # mappable register: declared order
    names = rng.sample(["c", "a", "zz", "b", "m", "k", "x", "d", "e", "f", "g", "h", "q10", "q2"], min(len(pts), rng.choice([2, 3, 5])))
    mreg = MappableRegister(l1, *names)
    kk = rng.randrange(1, len(names) + 1)
    mp = dict(zip(names[:kk], rng.sample(range(len(pts)), kk)))
    items = list(mp.items())
    rng.shuffle(items)
    r2 = mreg.build_register(dict(items))
    if list(r2.qubit_ids) != names[:kk]:
        out.append(f"build_register gives qubits {list(r2.qubit_ids)}, declared order is {names[:kk]}")
    for q, t in mp.items():
        c = np.asarray(r2.qubits[q].as_array() if hasattr(r2.qubits[q], "as_array") else r2.qubits[q], dtype=float)
        if not np.allclose(c, sc[t], atol=0):
            out.append(f"build_register puts {q} at {c}, not on trap {t}")
    # detuning map: each qubit gets the weight of the trap at its position, independent of ordering
    w = {t: round(rng.random(), 3) for t in rng.sample(range(len(pts)), min(len(pts), 3))}
    tot = sum(w.values()) or 1.0
    w = {t: v / tot for t, v in w.items()}
    dm = l1.define_detuning_map(dict(w))
    items = list(w.items())
    rng.shuffle(items)
    dm2 = l1.define_detuning_map(dict(items))
    full = l1.define_register(*range(len(pts)))
    wm, wm2 = dm.get_qubit_weight_map(full.qubits), dm2.get_qubit_weight_map(full.qubits)
    for t in range(len(pts)):
        if abs(wm[f"q{t}"] - w.get(t, 0.0)) > 1e-12 or abs(wm2[f"q{t}"] - w.get(t, 0.0)) > 1e-12:
            out.append(f"detuning map gives trap {t} weight {wm[f'q{t}']} / {wm2[f'q{t}']}, expected {w.get(t, 0.0)}")
    # detuning map built directly from raw (unrounded, unsorted) trap coordinates: the weight given with a trap stays with that trap
    from pulser.register.weight_maps import DetuningMap
    raw_w = [round(rng.random(), 3) for _ in pts]
    tot = sum(raw_w) or 1.0
    raw_w = [v / tot for v in raw_w]
    perm = list(range(len(pts)))
    rng.shuffle(perm)
    for order in (list(range(len(pts))), perm):
        dmr = DetuningMap([pts[i] for i in order], [raw_w[i] for i in order])
        by_pos = {tuple(round(x, 6) + 0.0 for x in pts[i]): raw_w[i] for i in range(len(pts))}
        got = dmr.get_qubit_weight_map(full.qubits)
        for t in range(len(pts)):
            e = by_pos[tuple(sc[t].tolist())]
            if abs(got[f"q{t}"] - e) > 1e-12:
                out.append(f"DetuningMap(raw coords) gives the qubit on trap {t} weight {got[f'q{t}']}, the weight given with that trap is {e}: {pts}")
                break
        sw = np.asarray(dmr.sorted_weights, dtype=float)
        if any(abs(sw[t] - by_pos[tuple(sc[t].tolist())]) > 1e-12 for t in range(len(pts))):
            out.append(f"DetuningMap(raw coords).sorted_weights is not in trap order: {pts}")
    return out


def run(rng, budget_s, known_match):
    import time
    t0 = time.time()
    failures, evals, samples = [], 0, []
    while time.time() - t0 < budget_s:
        try:
            msgs = check_layout(rng)
        except Exception as ex:
            import traceback
            msgs = [f"harness error: {ex!r} {traceback.format_exc()[-300:]}"]
        evals += 1
        for m in msgs:
            failures.append(dict(prop="C19", clause=m, step=-1, op=["layout"], known=known_match(m, "layout", 0)))
        if len(samples) < 2:
            samples.append(dict(check="2-D / 3-D layouts on a small value grid with sub-precision perturbations, shuffled copies"))
        if len([f for f in failures if not f.get("known")]) >= 5:
            break
    return failures, evals, max(2, evals), samples
