"""C08 bounded stand-in: building a parametrized template equals direct construction; builds are independent and reproducible."""
import copy
import math
import random
import warnings

import numpy as np

import harness
import checks
from pulser import Pulse, Register, Sequence
from pulser.register.special_layouts import SquareLatticeLayout
from pulser.register.mappable_reg import MappableRegister


def paramify(ops, rng):
    """choose which numeric arguments become variables: -> (ops with ('var', name, index) placeholders, value sets)"""
    vals, out = {}, []
    for i, op in enumerate(ops):
        op = list(op)
        if op[0] == "delay" and rng.random() < 0.6 and op[1] > 0:
            vals[f"d{i}"] = op[1]
            op[1] = ("var", f"d{i}")
        elif op[0] == "phase_shift" and rng.random() < 0.6:
            vals[f"p{i}"] = op[1]
            op[1] = ("var", f"p{i}")
        elif op[0] == "add" and op[1][0] == "const" and rng.random() < 0.7:
            spec = list(op[1])
            vals[f"a{i}"] = spec[2]
            spec[2] = ("var", f"a{i}")
            if rng.random() < 0.5:
                vals[f"t{i}"] = spec[1]
                spec[1] = ("var", f"t{i}")
            op[1] = tuple(spec)
        out.append(tuple(op))
    return out, vals


def subst(x, env):
    if isinstance(x, tuple) and len(x) == 2 and x[0] == "var":
        return env[x[1]]
    if isinstance(x, (tuple, list)):
        return type(x)(subst(y, env) for y in x)
    return x


def other_values(vals, rng):
    out = {}
    for k, v in vals.items():
        if k[0] == "d":
            out[k] = rng.choice([16, 100, 37, 200])
        elif k[0] == "p":
            out[k] = rng.choice([0.25, math.pi, -2.0])
        elif k[0] == "a":
            out[k] = rng.choice([0.0, 1.0, 2.5])
        else:
            out[k] = rng.choice([16, 52, 100])
    return out


def run_direct(cfg, ops):
    dev = harness.build_device(cfg)
    n = cfg["n_atoms"]
    reg = Register({f"q{i}": (6.0 * i, 0.0) for i in range(n)})
    seq = Sequence(reg, dev)
    ctx = dict(reg=reg, qids=[f"q{i}" for i in range(n)], cfg=cfg, dev=dev)
    for op in ops:
        harness.apply_op(seq, op, ctx)       # raises if the concrete history is refused
    return seq


def run_template(cfg, pops, names):
    dev = harness.build_device(cfg)
    n = cfg["n_atoms"]
    reg = Register({f"q{i}": (6.0 * i, 0.0) for i in range(n)})
    seq = Sequence(reg, dev)
    ctx = dict(reg=reg, qids=[f"q{i}" for i in range(n)], cfg=cfg, dev=dev)
    env = {nm: seq.declare_variable(nm, dtype=int if nm[0] in "dt" else float) for nm in names}
    for op in pops:
        harness.apply_op(seq, subst(op, env), ctx)
    return seq


def timeline(seq):
    s = checks.snapshot(seq)
    return dict(schedule=s["schedule"], refs=s["refs"])


def template_state(seq):
    return (len(seq._calls), len(seq._to_build_calls), [(c.name, repr(c.args), repr(sorted(c.kwargs.items()))) for c in seq._calls + seq._to_build_calls],
            seq._building, {k: v["slots"] for k, v in checks.snapshot(seq)["schedule"].items()})


def one(rng):
    cfg = harness.gen_config(rng)
    ops = [op for op in harness.gen_history(rng, cfg, rng.choice([4, 8, 12]))
           if op[0] in ("declare", "add", "delay", "target", "align", "phase_shift")]
    pops, vals = paramify(ops, rng)
    if not vals:
        return [], 0
    out = []
    vals2 = other_values(vals, rng)
    try:
        with warnings.catch_warnings():
            warnings.simplefilter("ignore")
            tmpl = run_template(cfg, pops, list(vals))
    except Exception:
        return [], 0
    before = template_state(tmpl)
    results = {}
    for tag, vv in (("first", vals), ("second", vals2), ("first-again", vals)):
        try:
            with warnings.catch_warnings():
                warnings.simplefilter("ignore")
                direct = run_direct(cfg, [subst(op, vv) for op in pops])
        except Exception:
            direct = None
        try:
            with warnings.catch_warnings():
                warnings.simplefilter("ignore")
                built = tmpl.build(**vv)
        except Exception as ex:
            built = None
            if direct is not None:
                out.append(f"build({vv}) raised {ex!r} although direct construction succeeds")
        if direct is not None and built is not None and timeline(built) != timeline(direct):
            diff = [k for k in timeline(built)["schedule"] if timeline(built)["schedule"][k] != timeline(direct)["schedule"].get(k)]
            out.append(f"build({vv}) differs from direct construction on {diff or 'phase references'} [{tag}]")
        if built is not None:
            results[tag] = timeline(built)
    if "first" in results and "first-again" in results and results["first"] != results["first-again"]:
        out.append("building again with the first values does not reproduce the first build")
    if template_state(tmpl) != before:
        out.append("building altered the template")
    return [(m, dict(cfg=cfg, ops=pops, values=[vals, vals2])) for m in out], 1


def mappable(rng):
    """a mappable register is resolved to exactly the requested traps, in declared order; index targeting uses that order"""
    out = []
    layout = SquareLatticeLayout(4, 4, 6.0)
    n = rng.choice([3, 4, 12])
    ids = [f"q{i}" for i in range(n)] if rng.random() < 0.5 else rng.sample(["c", "a", "zz", "b", "m", "k", "x", "d", "e", "f", "g", "h"], n)
    mreg = MappableRegister(layout, *ids)
    k = rng.choice([max(1, n - 1), n]) if n > 1 else 1
    traps = rng.sample(range(layout.number_of_traps), k)
    mapping = dict(zip(ids[:k], traps))
    reg = mreg.build_register(mapping)
    if list(reg.qubit_ids) != ids[:k]:
        out.append(f"build_register order {list(reg.qubit_ids)} is not the declared order {ids[:k]}")
    for q, t in mapping.items():
        if not np.allclose(np.asarray(reg.qubits[q].as_array() if hasattr(reg.qubits[q], "as_array") else reg.qubits[q], dtype=float), layout.coords[t]):
            out.append(f"qubit {q} is not on trap {t}")
    return [(m, dict(ids=ids, mapping=mapping)) for m in out], 1


def array_variable(rng):
    """an array variable whose entries change only partly between builds (stale-cache check)"""
    from pulser.devices import MockDevice
    out = []
    reg = Register({"q0": (0.0, 0.0), "q1": (6.0, 0.0)})
    seq = Sequence(reg, MockDevice)
    seq.declare_channel("ch", "rydberg_global")
    amps = seq.declare_variable("amps", size=2, dtype=float)
    durs = seq.declare_variable("durs", size=2, dtype=int)
    seq.add(Pulse.ConstantPulse(durs[0], amps[0], 0.0, 0.0), "ch")
    seq.add(Pulse.ConstantPulse(durs[1], amps[1] * 2.0, 0.0, 0.0), "ch")
    seq.delay(durs[0] + durs[1], "ch")
    a = [rng.choice([1.0, 2.0]), rng.choice([0.5, 1.5])]
    d = [rng.choice([100, 200]), rng.choice([52, 300])]
    sets = [(a, d), ([a[0], a[1] + 1.0], d), (a, [d[0], d[1] + 48]), ([a[0] + 1.0, a[1]], [d[0] + 100, d[1]]), (a, d)]
    for av, dv in sets:
        b = seq.build(amps=av, durs=dv)
        direct = Sequence(reg, MockDevice)
        direct.declare_channel("ch", "rydberg_global")
        direct.add(Pulse.ConstantPulse(dv[0], av[0], 0.0, 0.0), "ch")
        direct.add(Pulse.ConstantPulse(dv[1], av[1] * 2.0, 0.0, 0.0), "ch")
        direct.delay(dv[0] + dv[1], "ch")
        if timeline(b) != timeline(direct):
            out.append(f"build(amps={av}, durs={dv}) after a previous build differs from direct construction (stale values?)")
    return [(m, {}) for m in out], 1


def mappable_sequence(rng):
    """template on a mappable register with calls deferred to build time that read the register's qubits"""
    from pulser.devices import VirtualDevice
    from pulser.channels import Rydberg
    from pulser.channels.dmm import DMM
    out = []
    layout = SquareLatticeLayout(3, 3, 6.0)
    dev = VirtualDevice(name="m", dimensions=2, rydberg_level=60, channel_objects=(Rydberg.Global(None, None),),
                        dmm_objects=(DMM(bottom_detuning=-100.0, total_bottom_detuning=-1000.0),), reusable_channels=False)
    n = 4
    ids = [f"q{i}" for i in range(n)]
    k = rng.choice([2, 3])
    traps = rng.sample(range(9), k)
    dmap = layout.define_detuning_map({t: 1.0 for t in range(9)})
    tmpl = Sequence(MappableRegister(layout, *ids), dev)
    tmpl.declare_channel("ch", "rydberg_global")
    v = tmpl.declare_variable("v", dtype=int)
    tmpl.delay(v, "ch")
    tmpl.config_detuning_map(dmap, "dmm_0")
    tmpl.add_dmm_detuning(harness.ConstantWaveform(100, -1.0), "dmm_0")
    tmpl.add(Pulse.ConstantPulse(100, 1.0, 0.0, 0.0), "ch")
    built = tmpl.build(qubits=dict(zip(ids[:k], traps)), v=100)
    reg = layout.define_register(*traps, qubit_ids=ids[:k])
    direct = Sequence(reg, dev)
    direct.declare_channel("ch", "rydberg_global")
    direct.delay(100, "ch")
    direct.config_detuning_map(dmap, "dmm_0")
    direct.add_dmm_detuning(harness.ConstantWaveform(100, -1.0), "dmm_0")
    direct.add(Pulse.ConstantPulse(100, 1.0, 0.0, 0.0), "ch")
    tb, td = timeline(built), timeline(direct)
    mapped = set(ids[:k])
    tb["refs"] = {b: {q: r for q, r in d.items() if q in mapped} for b, d in tb["refs"].items()}   # (references kept for unmapped ids are unobservable)
    if tb != td:
        out.append(f"built sequence on a mappable register ({k} of {n} qubits mapped) differs from direct construction on the concrete register")
    if set(map(str, built._qids)) != set(ids[:k]):
        out.append(f"built sequence knows qubits {sorted(map(str, built._qids))} but only {ids[:k]} were mapped")
    return [(m, {}) for m in out], 1


def run(rng, budget_s, known_match):
    import time
    t0 = time.time()
    failures, evals, nontriv, samples = [], 0, 0, []
    while time.time() - t0 < budget_s:
        for fn in (one, one, one, mappable, array_variable, mappable_sequence):
            try:
                msgs, nt = fn(rng)
            except Exception as ex:
                import traceback
                msgs, nt = [(f"harness error in {fn.__name__}: {ex!r} {traceback.format_exc()[-300:]}", {})], 0
            evals += 1
            nontriv += nt
            for m, extra in msgs:
                failures.append(dict(prop="C08", clause=m, step=-1, op=[fn.__name__], extra=extra, known=known_match(m, fn.__name__, 0)))
        if len(samples) < 2:
            samples.append(dict(check="template with variables for delays / phases / pulse amplitudes and durations, three builds, compared with direct construction"))
        if len([f for f in failures if not f.get("known")]) >= 5:
            break
    return failures, evals, max(2, nontriv), samples
