"""C06 stand-in, XY mode with an SLM mask: the per-atom view withholds XY pulses from masked atoms exactly while the mask is on.

Generated sequences on MockDevice with one or two Microwave channels (the id is reusable there), a random SLM mask, random pulses with
random protocols (so that a pulse on the second channel can straddle the end of the mask).  The reference renders each atom
independently: every pulse that targets it, clipped to start at the mask end if the atom is masked."""
import warnings

import numpy as np

from pulser import Pulse, Register, Sequence
from pulser.devices import MockDevice


def gen_case(rng):
    n_ch = rng.choice([1, 2, 2])
    mask = rng.sample(["q0", "q1", "q2"], rng.choice([1, 1, 2]))
    ops = []
    for _ in range(rng.choice([2, 3, 5])):
        ops.append((rng.randrange(n_ch), rng.choice([52, 100, 200, 400]), round(rng.choice([0.5, 1.0, 2.0]), 2),
                    rng.choice(["min-delay", "no-delay", "no-delay", "wait-for-all"])))
    return dict(n_ch=n_ch, mask=mask, mask_first=rng.random() < 0.7), ops


def run_case(dev, ops):
    from pulser.sampler import sample
    with warnings.catch_warnings():
        warnings.simplefilter("ignore")
        reg = Register({"q0": (0.0, 0.0), "q1": (8.0, 0.0), "q2": (16.0, 0.0)})
        seq = Sequence(reg, MockDevice)
        names = [f"m{i}" for i in range(dev["n_ch"])]
        for n in names:
            seq.declare_channel(n, "mw_global")
        if dev["mask_first"]:
            seq.config_slm_mask(dev["mask"])
        for k, (ci, dur, amp, proto) in enumerate(ops):
            seq.add(Pulse.ConstantPulse(dur, amp, 0.0, 0.0), names[ci], protocol=proto)
            if k == 0 and not dev["mask_first"]:
                seq.config_slm_mask(dev["mask"])
        total = seq.get_duration()
        # the mask lasts for the first pulse of the sequence (earliest start; documented rule)
        first = min((s for n in names for s in seq._schedule[n].slots if isinstance(s.type, Pulse)), key=lambda s: (s.ti, ))
        mask_end = first.tf
        nd = sample(seq).to_nested_dict(all_local=True)
        out = []
        for q in reg.qubit_ids:
            exp = np.zeros(total)
            for n in names:
                for s in seq._schedule[n].slots:
                    if isinstance(s.type, Pulse) and q in s.targets:
                        ti = max(s.ti, mask_end) if q in dev["mask"] else s.ti
                        if ti < s.tf:
                            exp[ti:s.tf] += np.asarray(s.type.amplitude.samples.as_array(detach=True), dtype=float)[ti - s.ti:]
            got = np.asarray(nd["Local"]["XY"][q]["amp"], dtype=float)
            if len(got) != total or not np.allclose(got, exp, atol=1e-9):
                t = int(np.argmax(np.abs(got[:total] - exp[:len(got)]))) if len(got) == total else -1
                out.append(f"XY/SLM: atom {q} (masked: {q in dev['mask']}, mask ends at {mask_end}) amplitude differs from the pulses that target it outside the mask at t={t}")
                break
    return out


def run(rng, budget_s, known_match):
    import time
    t0 = time.time()
    failures, evals, samples, distinct = [], 0, [], set()
    scripted = [(dict(n_ch=2, mask=["q0"], mask_first=True), [(0, 200, 1.0, "min-delay"), (1, 400, 0.5, "no-delay")])]
    while time.time() - t0 < budget_s:
        dev, ops = scripted.pop(0) if scripted else gen_case(rng)
        try:
            msgs = run_case(dev, ops)
        except Exception as ex:
            import traceback
            msgs = [f"harness error {ex!r} {traceback.format_exc()[-300:]}"]
        evals += len(ops)
        distinct.add(repr((dev, ops)))
        for m in msgs:
            failures.append(dict(prop="C06", clause=m, step=-1, op=["xy-slm"], known=known_match(m, "xy-slm", 0), case=dict(dev=dev, ops=ops)))
        if len(samples) < 1:
            samples.append(dict(dev=dev, ops=ops))
        if len([f for f in failures if not f.get("known")]) >= 3:
            break
    return failures, evals, len(distinct), samples


def replay_case(case):
    return run_case(case["dev"], [tuple(o) for o in case["ops"]])
