"""C17 bounded stand-in: round-trips of devices / channels / registers / layouts / detuning maps / noise models / emulation
configurations / states / operators / results, NoiseModel <-> SimConfig conversion, active noise types, and no shared state
between instances (earlier-built objects are re-observed after every later construction / decoding)."""
import copy
import dataclasses
import json
import math
import random
import warnings

import numpy as np

import pulser
from pulser import Register, Register3D
from pulser.backend import (BitStrings, CorrelationMatrix, EmulationConfig, Energy, EnergySecondMoment, EnergyVariance, Expectation, Fidelity,
                            Occupation, Results)
from pulser.backend.operator import OperatorRepr
from pulser.backend.state import StateRepr
from pulser.channels import DMM, Microwave, Raman, Rydberg
from pulser.channels.eom import RydbergBeam, RydbergEOM
from pulser.devices import Device, VirtualDevice
from pulser.json.abstract_repr.backend import _deserialize_operator, _deserialize_state
from pulser.json.abstract_repr.deserializer import (_deserialize_det_map, deserialize_abstract_layout, deserialize_abstract_noise_model,
                                                    deserialize_abstract_register, deserialize_device)
from pulser.json.abstract_repr.serializer import AbstractReprEncoder
from pulser.noise_model import NoiseModel
from pulser.register.register_layout import RegisterLayout
from pulser.register.weight_maps import DetuningMap

# the property's own table: a noise type is active exactly when one of its parameters was set (documented in NoiseModel's docstring)
TYPE_PARAMS = {"leakage": ("with_leakage",), "doppler": ("temperature",), "amplitude": ("laser_waist", "amp_sigma"),
               "SPAM": ("p_false_pos", "p_false_neg", "state_prep_error"), "dephasing": ("dephasing_rate", "hyperfine_dephasing_rate"),
               "relaxation": ("relaxation_rate",), "depolarizing": ("depolarizing_rate",), "eff_noise": ("eff_noise_rates", "eff_noise_opers")}


def dumps(o):
    return json.dumps(o, cls=AbstractReprEncoder)


def eqv(a, b):
    """structural equality tolerant of tuple/list and ndarray containers, exact on numbers"""
    if isinstance(a, np.ndarray) or isinstance(b, np.ndarray):
        a, b = np.asarray(a), np.asarray(b)
        return a.shape == b.shape and bool(np.all(a == b))
    if isinstance(a, (list, tuple)) and isinstance(b, (list, tuple)):
        return len(a) == len(b) and all(eqv(x, y) for x, y in zip(a, b))
    if isinstance(a, dict) and isinstance(b, dict):
        return a.keys() == b.keys() and all(eqv(a[k], b[k]) for k in a)
    if isinstance(a, RegisterLayout) and isinstance(b, RegisterLayout):
        return a == b and a.slug == b.slug and eqv(np.asarray(a.sorted_coords), np.asarray(b.sorted_coords))
    if dataclasses.is_dataclass(a) and dataclasses.is_dataclass(b) and not isinstance(a, type):
        return type(a) is type(b) and all(eqv(getattr(a, f.name), getattr(b, f.name)) for f in dataclasses.fields(a))
    try:
        return bool(a == b)
    except Exception:
        return False


def field_diff(a, b):
    return [f.name for f in dataclasses.fields(a) if not eqv(getattr(a, f.name), getattr(b, f.name))]


# ---------------------------------------------------------------------------------------------------------------- generators
def gen_eom(rng, bw):
    beams = rng.choice([(RydbergBeam.BLUE,), (RydbergBeam.RED,), (RydbergBeam.BLUE, RydbergBeam.RED), (RydbergBeam.RED, RydbergBeam.BLUE)])
    kw = dict(mod_bandwidth=rng.choice([bw, 2 * bw, 30.0, 25]), limiting_beam=rng.choice([RydbergBeam.RED, RydbergBeam.BLUE]),
              max_limiting_amp=rng.choice([40 * 2 * np.pi, 100.0, 30]), intermediate_detuning=rng.choice([700 * 2 * np.pi, 4000.0, 800]),
              controlled_beams=beams)
    if rng.random() < 0.6:
        kw["custom_buffer_time"] = rng.choice([None, 240, 100, 0])
    if rng.random() < 0.6:
        kw["multiple_beam_control"] = rng.choice([True, False]) if len(beams) > 1 else True
    if rng.random() < 0.5:
        kw["blue_shift_coeff"] = rng.choice([1.0, 1.5])
        kw["red_shift_coeff"] = rng.choice([1.0, 0.7])
    return RydbergEOM(**kw)


def gen_channel(rng, physical=False):
    kind = rng.choice(["ryd", "ryd", "ram", "mw"])
    local = rng.random() < 0.4 and kind != "mw"
    kw = {}
    opt = lambda p: rng.random() < p   # noqa: E731
    if opt(0.6):
        kw["clock_period"] = rng.choice([1, 2, 4, 8])
    if opt(0.6):
        kw["min_duration"] = rng.choice([1, 4, 16, 20])
    maxd = rng.choice([None, 10**7, 100000000, 400, 1000])
    if physical and maxd is None:
        maxd = 10**6
    if opt(0.6) or physical:
        kw["max_duration"] = maxd
    if opt(0.5):
        kw["min_avg_amp"] = rng.choice([0, 0.4, 1])
    bw = rng.choice([None, 2.0, 4, 8.0, 20.0])
    if opt(0.7):
        kw["mod_bandwidth"] = bw
    if opt(0.4):
        kw["custom_phase_jump_time"] = rng.choice([None, 0, 40])
    if opt(0.3):
        kw["propagation_dir"] = rng.choice([None, (1, 0, 0), (0.0, 1.0, 0.0)])
        if local:
            kw.pop("propagation_dir")
    mad = rng.choice([None, 20.0, 125, 2 * np.pi * 20])
    mamp = rng.choice([None, 10.0, 15, 2 * np.pi * 2.5])
    if physical:
        mad = mad or 50.0
        mamp = mamp or 10.0
    cls = {"ryd": Rydberg, "ram": Raman, "mw": Microwave}[kind]
    if kind == "ryd" and kw.get("mod_bandwidth") is not None and opt(0.6):
        kw["eom_config"] = gen_eom(rng, kw["mod_bandwidth"])
    if local:
        lk = {}
        if opt(0.6) or physical:
            lk["min_retarget_interval"] = rng.choice([0, 50, 220])
        if opt(0.6):
            lk["fixed_retarget_t"] = rng.choice([0, 10, 100])
        if opt(0.6) or physical:
            lk["max_targets"] = rng.choice([1, 2, 5]) if physical else rng.choice([None, 1, 2])
        if "fixed_retarget_t" in lk and "min_retarget_interval" not in lk:
            lk["min_retarget_interval"] = 0
        if physical:
            lk.setdefault("min_retarget_interval", 220)
            lk.setdefault("max_targets", 1)
        return cls.Local(mad, mamp, **lk, **kw)
    return cls.Global(mad, mamp, **kw)


def gen_dmm(rng):
    kw = dict(bottom_detuning=rng.choice([None, -20.0, -100, -2 * np.pi * 20]))
    if rng.random() < 0.5:
        kw["total_bottom_detuning"] = rng.choice([None, -200.0, -2000])
    if rng.random() < 0.5:
        kw["clock_period"] = rng.choice([1, 4])
    if rng.random() < 0.5:
        kw["min_duration"] = rng.choice([1, 16])
    if rng.random() < 0.5:
        kw["mod_bandwidth"] = rng.choice([None, 8.0])
    if rng.random() < 0.3:
        kw["max_duration"] = rng.choice([None, 10**6])
    return DMM(**kw)


def gen_noise(rng, allow_runs=True):
    kw = {}
    o = lambda p=0.3: rng.random() < p   # noqa: E731
    if o():
        kw["state_prep_error"] = rng.choice([0.0, 0.005, 0.1, None])
    if o():
        kw["p_false_pos"] = rng.choice([0.0, 0.01, 0.2, None])
    if o():
        kw["p_false_neg"] = rng.choice([0.0, 0.05, None])
    if o():
        kw["temperature"] = rng.choice([0.0, 50.0, 1000, None])
    if o():
        kw["laser_waist"] = rng.choice([None, 175.0, 100])
    if o():
        kw["amp_sigma"] = rng.choice([0.0, 0.05, 0.5, None])
    if o():
        kw["relaxation_rate"] = rng.choice([0.0, 0.01, 1, None])
    with_leak = o(0.15)
    if o():
        kw["dephasing_rate"] = rng.choice([0.0, 0.05, None])
    if o():
        kw["hyperfine_dephasing_rate"] = rng.choice([0.0, 1e-3, None])
    if o():
        kw["depolarizing_rate"] = rng.choice([0.0, 0.05, None])
    if with_leak:
        for k in ("dephasing_rate", "hyperfine_dephasing_rate", "depolarizing_rate"):
            if kw.get(k):
                kw[k] = 0.0
    if o() or with_leak:
        dim = 3 if with_leak else 2
        n = rng.choice([1, 2])
        ops = []
        for _ in range(n):
            m = np.zeros((dim, dim), dtype=complex if rng.random() < 0.3 else float)
            m[rng.randrange(dim), rng.randrange(dim)] = 1.0
            if m.dtype == complex:
                m[0, 0] += 0.5j
            ops.append(m if rng.random() < 0.5 else m.tolist())
        kw["eff_noise_opers"] = tuple(ops) if rng.random() < 0.5 else ops
        kw["eff_noise_rates"] = tuple(rng.choice([0.1, 1.0, 0.05]) for _ in range(n))
        if rng.random() < 0.3:
            kw["eff_noise_rates"] = list(kw["eff_noise_rates"])
    if with_leak:
        kw["with_leakage"] = True
    needs_runs = bool(kw.get("temperature")) or bool(kw.get("amp_sigma")) or bool(kw.get("state_prep_error"))
    if needs_runs or (o(0.2) and allow_runs):
        kw["runs"] = rng.choice([1, 15, 100])
        kw["samples_per_run"] = rng.choice([1, 5])
    if kw.get("amp_sigma") and "laser_waist" not in kw and o(0.5):
        kw["laser_waist"] = 175.0
    return kw


def gen_layout(rng, dim=2, n=None):
    n = n or rng.choice([3, 5, 8])
    pts = set()
    while len(pts) < n:
        pts.add(tuple(float(rng.randrange(-4, 5) * 5) + rng.choice([0.0, 0.5, 0.25]) for _ in range(dim)))
    pts = list(pts)
    rng.shuffle(pts)
    return RegisterLayout(pts, slug=rng.choice([None, "lay", "my-layout"]))


def gen_device(rng):
    physical = rng.random() < 0.4
    nch = rng.choice([1, 2, 3])
    chans = [gen_channel(rng, physical) for _ in range(nch)]
    ids = rng.random() < 0.5
    kw = dict(name=rng.choice(["gen", "Dev-1"]), dimensions=rng.choice([2, 3]), rydberg_level=rng.choice([50, 60, 61, 70]), channel_objects=tuple(chans))
    if ids:
        kw["channel_ids"] = tuple(f"ch{i}" for i in range(nch))
    o = lambda p=0.5: rng.random() < p   # noqa: E731
    dmm = []
    if o(0.4):
        dmm = [gen_dmm(rng) for _ in range(rng.choice([1, 2]))]
        if physical:
            dmm = [d for d in dmm if d.bottom_detuning is not None]
            dmm = [dataclasses.replace(d, max_duration=d.max_duration or 10**6) for d in dmm]
        kw["dmm_objects"] = tuple(dmm)
    if o():
        kw["supports_slm_mask"] = bool(dmm) and o()
    if o():
        kw["max_layout_filling"] = rng.choice([0.5, 0.4, 0.75])
    if o():
        kw["min_layout_traps"] = rng.choice([1, 4])
    if o():
        kw["max_layout_traps"] = rng.choice([None, 50, 200])
    if o(0.3):
        kw["interaction_coeff_xy"] = rng.choice([None, 3700.0]) if any(isinstance(c, Microwave) for c in chans) else None
    if o(0.3):
        kw["max_sequence_duration"] = rng.choice([None, 3000, 100000])
    if o(0.3):
        kw["max_runs"] = rng.choice([None, 500])
    if o(0.4):
        kw["default_noise_model"] = NoiseModel(**gen_noise(rng))
    if o(0.3):
        kw["reusable_channels"] = o() if not physical else False
    if any(isinstance(c, Microwave) for c in chans):
        kw.setdefault("interaction_coeff_xy", 3700.0)
        if kw["interaction_coeff_xy"] is None:
            kw["interaction_coeff_xy"] = 3700.0
    if physical:
        kw.update(max_atom_num=rng.choice([10, 25, 100]), max_radial_distance=rng.choice([35, 50]), min_atom_distance=rng.choice([1, 4, 5.0]))
        kw.pop("reusable_channels", None)
        if kw.get("max_layout_traps") is None:
            kw.pop("max_layout_traps", None)
        if o(0.4):
            kw["pre_calibrated_layouts"] = tuple(gen_layout(rng, kw["dimensions"], rng.choice([4, 6])) for _ in range(rng.choice([1, 2])))
        if o(0.3):
            kw["requires_layout"] = o()
        if o(0.3):
            kw["accepts_new_layouts"] = True if not kw.get("pre_calibrated_layouts") else o()
        return Device(**kw)
    if o():
        kw["max_atom_num"] = rng.choice([None, 10, 25])
    if o():
        kw["max_radial_distance"] = rng.choice([None, 35, 50])
    if o():
        kw["min_atom_distance"] = rng.choice([0, 1, 4.0])
    if o(0.3):
        kw["requires_layout"] = o()
    return VirtualDevice(**kw)


# ---------------------------------------------------------------------------------------------------------------- checks
def check_device(rng):
    msgs = []
    try:
        with warnings.catch_warnings():
            warnings.simplefilter("ignore")
            dev = gen_device(rng)
    except (ValueError, TypeError, NotImplementedError):
        return msgs, None      # generator produced an invalid parameter combination: not a case
    s = dev.to_abstract_repr()          # validates against the device schema itself
    dev2 = deserialize_device(s)
    if type(dev2) is not type(dev):
        msgs.append(f"device round-trip changes the class: {type(dev).__name__} -> {type(dev2).__name__}")
    elif dev2 != dev or field_diff(dev, dev2):
        d = field_diff(dev, dev2)
        sub = ""
        if d == ["default_noise_model"]:
            nm, nm2 = dev.default_noise_model, dev2.default_noise_model
            fd = field_diff(nm, nm2) if (nm is not None and nm2 is not None) else []
            relevant = NoiseModel._find_relevant_params(nm.noise_types, nm.state_prep_error, nm.amp_sigma, nm.laser_waist) if fd else set()
            if fd and not (set(fd) & (set(relevant) | {"noise_types"})):
                return [f"device round-trip: default noise model: a parameter that was set but is not used by any active noise type is dropped {fd}"], "device/irrelevant-noise-param"
        if "channel_objects" in d:
            for a, b in zip(dev.channel_objects, dev2.channel_objects):
                if a != b:
                    sub = f" channel {type(a).__name__}: fields {field_diff(a, b) if type(a) is type(b) else 'class'}"
        msgs.append(f"device round-trip: decoded device differs in fields {d}{sub}")
    if dev2.to_abstract_repr() != s:
        msgs.append("device round-trip: re-encoding the decoded device gives a different document")
    # legacy encoder (built-in and virtual devices)
    return msgs, f"{type(dev).__name__}/{len(dev.channel_objects)}ch/{len(dev.dmm_objects)}dmm/" + ",".join(sorted(json.loads(s).keys()))[:80]


def check_register(rng):
    msgs = []
    dim = rng.choice([2, 3])
    with_layout = rng.random() < 0.5
    if with_layout:
        lay = gen_layout(rng, dim, rng.choice([5, 8]))
        k = rng.choice([2, 3, 4])
        ids = rng.sample(range(lay.number_of_traps), k)
        qids = rng.choice([None, [f"q{i}" for i in range(k)], [f"a{k - i}" for i in range(k)]])
        reg = lay.define_register(*ids, qubit_ids=qids)
        lay_s = lay.to_abstract_repr()
        lay2 = deserialize_abstract_layout(lay_s)
        if lay2 != lay or lay2.slug != lay.slug or not eqv(lay2.sorted_coords, lay.sorted_coords):
            msgs.append("layout round-trip: decoded layout differs")
    else:
        k = rng.choice([1, 3, 5])
        pts = set()
        while len(pts) < k:
            pts.add(tuple(float(rng.randrange(-4, 5) * 5) + rng.choice([0.0, 0.5]) for _ in range(dim)))
        names = [rng.choice(["q", "atom", "b"]) + str(i) for i in range(k)]
        rng.shuffle(names)
        cls = Register if dim == 2 else Register3D
        reg = cls(dict(zip(names, pts)))
    s = reg.to_abstract_repr()
    reg2 = deserialize_abstract_register(s)
    if type(reg2) is not type(reg) or reg2 != reg:
        msgs.append(f"register round-trip: decoded {type(reg).__name__} differs")
    else:
        if list(reg2.qubit_ids) != list(reg.qubit_ids):
            msgs.append("register round-trip: qubit order differs")
        if (reg2.layout is None) != (reg.layout is None) or (reg.layout is not None and reg2.layout != reg.layout):
            msgs.append("register round-trip: layout differs")
        if reg.layout is not None and list(reg2._layout_info.trap_ids) != list(reg._layout_info.trap_ids):
            msgs.append("register round-trip: trap ids differ")
    return msgs, f"register{dim}d/{'layout' if with_layout else 'free'}/{len(reg.qubit_ids)}"


def check_detmap(rng):
    msgs = []
    dim = 2
    n = rng.choice([2, 3, 5])
    pts = set()
    while len(pts) < n:
        pts.add(tuple(float(rng.randrange(-4, 5) * 5) + rng.choice([0.0, 0.5]) for _ in range(dim)))
    pts = list(pts)
    rng.shuffle(pts)
    w = [rng.choice([1.0, 2.0, 3.0, 0.5, 0.0]) for _ in range(n)]
    tot = sum(w)
    if tot == 0:
        w[0] = 1.0
        tot = 1.0
    w = [x / max(w) for x in w]
    mode = rng.choice(["direct", "register", "layout"])
    if mode == "direct":
        dm = DetuningMap(pts, w, slug=rng.choice([None, "dm"]))
    elif mode == "register":
        reg = Register(dict(zip([f"q{i}" for i in range(n)], pts)))
        dm = reg.define_detuning_map({f"q{i}": w[i] for i in range(n)}, slug=rng.choice([None, "dm"]))
    else:
        lay = RegisterLayout(pts)
        ids = list(range(n))
        rng.shuffle(ids)
        dm = lay.define_detuning_map({i: w[i] for i in ids}, slug=rng.choice([None, "dm"]))
    d = json.loads(dumps(dm))
    dm2 = _deserialize_det_map(d)
    if dm2 != dm:
        msgs.append("detuning-map round-trip: decoded map differs")
    else:
        a = {tuple(np.round(c, 6)): x for c, x in zip(np.asarray(dm.trap_coordinates), dm.weights)}
        b = {tuple(np.round(c, 6)): x for c, x in zip(np.asarray(dm2.trap_coordinates), dm2.weights)}
        if a != b or dm.slug != dm2.slug:
            msgs.append("detuning-map round-trip: weight of some trap / slug differs")
    return msgs, f"detmap/{mode}/{n}/{'uniform' if len(set(w)) == 1 else 'nonuniform'}"


def truthy(v):
    if isinstance(v, (tuple, list)):
        return len(v) > 0
    return bool(v)


def check_noise(rng):
    msgs = []
    kw = gen_noise(rng)
    try:
        with warnings.catch_warnings():
            warnings.simplefilter("ignore")
            nm = NoiseModel(**kw)
    except (ValueError, TypeError):
        return msgs, None
    exp = tuple(sorted(t for t, ps in TYPE_PARAMS.items() if any(truthy(kw.get(p)) for p in ps)))
    if tuple(nm.noise_types) != exp:
        msgs.append(f"noise model: active types {nm.noise_types} but the parameters that were set give {exp} (kwargs keys {sorted(kw)})")
    s = nm.to_abstract_repr()
    nm2 = deserialize_abstract_noise_model(s)
    fd = field_diff(nm, nm2)
    if nm2 != nm or fd:
        relevant = NoiseModel._find_relevant_params(nm.noise_types, nm.state_prep_error, nm.amp_sigma, nm.laser_waist)
        if fd and not (set(fd) & (set(relevant) | {"noise_types"})):
            msgs.append(f"noise model round-trip: a parameter that was set but is not used by any active noise type is dropped {fd}")
        else:
            msgs.append(f"noise model round-trip: differs in {fd}")
    elif NoiseModel.from_abstract_repr(s) != nm:
        msgs.append("noise model round-trip (from_abstract_repr) differs")
    # SimConfig conversion
    try:
        from pulser_simulation import SimConfig
    except Exception:
        SimConfig = None
    if SimConfig is not None:
        try:
            with warnings.catch_warnings():
                warnings.simplefilter("ignore")
                sc = SimConfig.from_noise_model(nm)
                back = sc.to_noise_model()
        except (ValueError, NotImplementedError, TypeError) as ex:
            sc = None
        if sc is not None:
            if set(back.noise_types) != set(nm.noise_types):
                msgs.append(f"NoiseModel->SimConfig->NoiseModel changes the active types {nm.noise_types} -> {back.noise_types}")
            else:
                relevant = NoiseModel._find_relevant_params(nm.noise_types, nm.state_prep_error, nm.amp_sigma, nm.laser_waist)
                for p in sorted(relevant):
                    if not eqv(getattr(back, p), getattr(nm, p)):
                        msgs.append(f"NoiseModel->SimConfig->NoiseModel changes relevant parameter {p}: {getattr(nm, p)!r} -> {getattr(back, p)!r}")
                        break
    return msgs, "noise/" + ",".join(exp)


def gen_state(rng):
    eig = rng.choice([("r", "g"), ("0", "1"), ["r", "g"], ("g", "h"), ("r", "g", "x")])
    n = rng.choice([1, 2, 3, 5])
    amps = {}
    for _ in range(rng.choice([1, 2, 3])):
        amps["".join(rng.choice(list(eig)) for _ in range(n))] = rng.choice([1.0, 0.5, 0.2 + 1.0j, -2.0, 0.22j])
    return dict(eigenstates=eig, amplitudes=amps), n


def gen_operator(rng):
    eig = rng.choice([("r", "g"), ("0", "1"), ["r", "g", "x"]])
    n = rng.choice([1, 2, 3, 5])
    ops = []
    for _ in range(rng.choice([0, 1, 2])):
        tens = []
        free = list(range(n))
        rng.shuffle(free)
        for _ in range(rng.choice([1, 2])):
            if not free:
                break
            k = rng.choice([1, min(2, len(free))])
            idx, free = sorted(free[:k]), free[k:]
            d = {rng.choice(list(eig)) + rng.choice(list(eig)): rng.choice([1.0, -1.0j, 2.3 + 0.22j, 0.5])}
            tens.append((d, idx))
        ops.append((rng.choice([1.0, 0.1j, -1.0j, 0.3]), tens))
    return dict(eigenstates=eig, n_qudits=n, operations=ops)


def observe_state(s):
    return (s.n_qudits, json.loads(dumps(s)))


def observe_op(o):
    return json.loads(dumps(o))


def check_state_operator(rng):
    """interleaved constructions and decodings of several states / operators: earlier ones never change"""
    msgs = []
    live = []   # (kind, obj, expected observation, expected n_qudits)
    for step in range(rng.choice([2, 3, 5])):
        act = rng.choice(["state", "op", "decode-state", "decode-op"])
        if act in ("state", "decode-state"):
            kw, n = gen_state(rng)
            st = StateRepr.from_state_amplitudes(**kw)
            if st.n_qudits != n:
                msgs.append(f"state: n_qudits {st.n_qudits} != length of the basis strings {n}")
            r = json.loads(dumps(st))
            if act == "decode-state":
                st2 = _deserialize_state(copy.deepcopy(r), StateRepr)
                if json.loads(dumps(st2)) != r or st2.n_qudits != n:
                    msgs.append("state round-trip: decoded state differs")
                live.append(("state", st2, observe_state(st2), n))
            live.append(("state", st, (n, r), n))
        else:
            kw = gen_operator(rng)
            op = OperatorRepr.from_operator_repr(**kw)
            r = json.loads(dumps(op))
            if r.get("n_qudits") != kw["n_qudits"]:
                msgs.append("operator: n_qudits not preserved")
            if act == "decode-op":
                op2 = _deserialize_operator(copy.deepcopy(r), OperatorRepr)
                if json.loads(dumps(op2)) != r:
                    msgs.append("operator round-trip: decoded operator differs")
                live.append(("op", op2, observe_op(op2), None))
            live.append(("op", op, r, None))
        for kind, obj, exp, n in live:
            now = observe_state(obj) if kind == "state" else observe_op(obj)
            want = exp
            if now != want:
                msgs.append(f"shared state: an earlier-built {kind} changed after a later {act} (was {str(want)[:80]}, now {str(now)[:80]})")
                return msgs, "state-op"
    return msgs, f"state-op/{len(live)}"


def gen_observables(rng):
    obs = []
    tags = set()
    for _ in range(rng.choice([0, 1, 2, 3])):
        k = rng.choice(["bit", "corr", "energy", "var", "e2", "occ", "fid", "exp"])
        kw = {}
        if rng.random() < 0.5:
            kw["evaluation_times"] = sorted({round(rng.random(), 2) for _ in range(rng.choice([1, 3]))})
        if rng.random() < 0.4:
            kw["tag_suffix"] = rng.choice(["a", "7", "x1"])
        if k == "bit":
            if rng.random() < 0.5:
                kw["num_shots"] = rng.choice([10, 211, 1000])
            if rng.random() < 0.5:
                kw["one_state"] = rng.choice(["r", "1", None])
            o = BitStrings(**kw)
        elif k == "corr":
            if rng.random() < 0.5:
                kw["one_state"] = rng.choice(["r", "1", None])
            o = CorrelationMatrix(**kw)
        elif k == "occ":
            if rng.random() < 0.5:
                kw["one_state"] = rng.choice(["r", "1", None])
            o = Occupation(**kw)
        elif k == "energy":
            o = Energy(**kw)
        elif k == "var":
            o = EnergyVariance(**kw)
        elif k == "e2":
            o = EnergySecondMoment(**kw)
        elif k == "fid":
            skw, _ = gen_state(rng)
            o = Fidelity(StateRepr.from_state_amplitudes(**skw), **kw)
        else:
            o = Expectation(OperatorRepr.from_operator_repr(**gen_operator(rng)), **kw)
        if o.tag in tags:
            continue
        tags.add(o.tag)
        obs.append(o)
    return obs


def observe_config(c):
    return json.loads(c.to_abstract_repr())


def check_config(rng):
    msgs = []
    obs = gen_observables(rng)
    kw = {}
    if rng.random() < 0.5:
        kw["default_evaluation_times"] = rng.choice(["Full", [0.1, 0.2, 0.3], (1.0,), [0.5]])
    if rng.random() < 0.4:
        skw, _ = gen_state(rng)
        kw["initial_state"] = StateRepr.from_state_amplitudes(**skw)
    if rng.random() < 0.5:
        kw["with_modulation"] = rng.random() < 0.5
    shared_matrix = None
    if rng.random() < 0.5:
        n = rng.choice([2, 3])
        m = np.zeros((n, n))
        for i in range(n):
            for j in range(i):
                m[i, j] = m[j, i] = rng.choice([0.5, 1.0, 2.5])
        shared_matrix = m if rng.random() < 0.5 else m.tolist()
        kw["interaction_matrix"] = shared_matrix
    if rng.random() < 0.3:
        kw["prefer_device_noise_model"] = rng.random() < 0.5
    if rng.random() < 0.4:
        try:
            with warnings.catch_warnings():
                warnings.simplefilter("ignore")
                kw["noise_model"] = NoiseModel(**gen_noise(rng))
        except (ValueError, TypeError):
            pass
    extra = {}
    if rng.random() < 0.4:
        extra = rng.choice([{"max_bond_dim": 10, "precision": 1e-6, "gpu": True}, {"opts": {"a": [1, 2, 3], "b": {"c": 1.5}}}, {"levels": [1, 2, [3, 4]]}])
        kw.update(copy.deepcopy(extra))
    if not obs:
        return msgs, None
    try:
        with warnings.catch_warnings():
            warnings.simplefilter("ignore")
            cfg = EmulationConfig(observables=obs, **kw)
    except (ValueError, TypeError):
        return msgs, None
    s = cfg.to_abstract_repr()
    before = json.loads(s)
    cfg2 = EmulationConfig.from_abstract_repr(s)
    again = json.loads(cfg2.to_abstract_repr())
    if again != before:
        dk = [k for k in before if before.get(k) != again.get(k)]
        if dk != ["noise_model"]:      # (a noise-model difference is reported, classified, below)
            msgs.append(f"emulation config round-trip: re-encoded decoded config differs from the original document in {dk}")
    for a, b in zip(cfg.observables, cfg2.observables):
        if json.loads(dumps(a)) != json.loads(dumps(b)) or type(a) is not type(b) or a.tag != b.tag:
            msgs.append("emulation config round-trip: observable differs")
    if len(cfg.observables) != len(cfg2.observables):
        msgs.append("emulation config round-trip: number of observables differs")
    for f in ("with_modulation", "prefer_device_noise_model"):
        if getattr(cfg, f) != getattr(cfg2, f):
            msgs.append(f"emulation config round-trip: {f} differs")
    if cfg.noise_model != cfg2.noise_model:
        nm, nm2 = cfg.noise_model, cfg2.noise_model
        fd = field_diff(nm, nm2)
        relevant = NoiseModel._find_relevant_params(nm.noise_types, nm.state_prep_error, nm.amp_sigma, nm.laser_waist)
        if fd and not (set(fd) & (set(relevant) | {"noise_types"})):
            msgs.append(f"emulation config round-trip: noise model: a parameter that was set but is not used by any active noise type is dropped {fd}")
        else:
            msgs.append(f"emulation config round-trip: noise_model differs in {fd}")
    if not eqv(cfg.default_evaluation_times, cfg2.default_evaluation_times):
        msgs.append("emulation config round-trip: default_evaluation_times differs")
    if (cfg.interaction_matrix is None) != (cfg2.interaction_matrix is None) or (cfg.interaction_matrix is not None and not eqv(np.asarray(cfg.interaction_matrix), np.asarray(cfg2.interaction_matrix))):
        msgs.append("emulation config round-trip: interaction_matrix differs")
    for k in extra:
        if not eqv(getattr(cfg2, k), extra[k]) or not eqv(getattr(cfg, k), extra[k]):
            msgs.append(f"emulation config round-trip: extra option {k} differs")
    # no shared state: a second config built from the very same argument objects, then its (mutable) contents changed in place
    try:
        with warnings.catch_warnings():
            warnings.simplefilter("ignore")
            other = EmulationConfig(observables=obs, **kw)
    except (ValueError, TypeError):
        other = None
    if other is not None:
        for k, v in list(other._backend_options.items()):
            _mutate(v)
        for k in extra:
            _mutate(getattr(other, k))
        if other.interaction_matrix is not None:
            _mutate(other.interaction_matrix)
        after = observe_config(cfg)
        if after != before:
            diff = [k for k in before if before.get(k) != after.get(k)]
            msgs.append(f"shared state: changing the contents of one EmulationConfig in place changed another built from the same arguments (keys {diff})")
    # the caller's argument objects stay the caller's: changing them afterwards does not change the config
    before = observe_config(cfg)
    for k in extra:
        _mutate(kw[k])
    if shared_matrix is not None:
        _mutate(shared_matrix)
    after = observe_config(cfg)
    if after != before:
        diff = [k for k in before if before.get(k) != after.get(k)]
        msgs.append(f"shared state: changing the caller's argument objects after construction changed the EmulationConfig (keys {diff})")
    return msgs, f"config/{len(obs)}obs/" + ",".join(sorted(kw))[:70]


def _mutate(v):
    try:
        if isinstance(v, np.ndarray) and v.size and v.flags.writeable:
            v.flat[0] = v.flat[0] + 17.0
        elif isinstance(v, list) and v:
            if isinstance(v[0], (list, dict)):
                _mutate(v[0])
            else:
                v[0] = 999
        elif isinstance(v, dict) and v:
            k = sorted(v, key=str)[0]
            if isinstance(v[k], (list, dict)):
                _mutate(v[k])
            else:
                v[k] = 999
    except Exception:
        pass


def check_results(rng):
    msgs = []
    obs = [o for o in gen_observables(rng) if not isinstance(o, (Fidelity, Expectation))]
    if not obs:
        return msgs, None
    n = rng.choice([1, 2, 4])
    res = Results(atom_order=tuple(f"q{i}" for i in range(n)), total_duration=rng.choice([100, 1000, 1234]))
    expected = {}
    for o in obs:
        for t in sorted({round(rng.random(), 2) for _ in range(rng.choice([1, 2]))}):
            if isinstance(o, BitStrings):
                v = {"".join(rng.choice("01") for _ in range(n)): rng.randrange(1, 50) for _ in range(2)}
                from collections import Counter
                v = Counter(v)
            elif isinstance(o, CorrelationMatrix):
                v = [[round(rng.random(), 3) for _ in range(n)] for _ in range(n)]
            elif isinstance(o, Occupation):
                v = [round(rng.random(), 3) for _ in range(n)]
            else:
                v = round(rng.random() * 10, 4)
            res._store(observable=o, time=t, value=v)
            expected.setdefault(o.tag, []).append((t, v))
    s = res.to_abstract_repr()
    res2 = Results.from_abstract_repr(s)
    if tuple(res2.atom_order) != tuple(res.atom_order) or res2.total_duration != res.total_duration:
        msgs.append("results round-trip: atom_order / total_duration differ")
    if sorted(res2.get_result_tags()) != sorted(res.get_result_tags()):
        msgs.append("results round-trip: result tags differ")
    else:
        for tag, tv in expected.items():
            if not eqv(list(res2.get_result_times(tag)), [t for t, _ in tv]):
                msgs.append(f"results round-trip: times of {tag} differ")
                break
            for t, v in tv:
                got = res2.get_result(tag, t)
                if not eqv(got, v) and not eqv(dict(got) if isinstance(got, dict) else got, dict(v) if isinstance(v, dict) else v):
                    msgs.append(f"results round-trip: value of {tag} at {t} differs: {got!r} vs {v!r}")
                    break
    # a second, independent Results object never sees the first one's data
    fresh = Results(atom_order=("a",), total_duration=10)
    if fresh.get_result_tags():
        msgs.append("shared state: a freshly built Results already holds results of another instance")
    return msgs, f"results/{len(obs)}obs"


def check_fresh_instances(rng):
    """instances built with default arguments never see what was done to another instance"""
    msgs = []
    a = EmulationConfig(observables=[BitStrings()])
    b = EmulationConfig(observables=[Energy()])
    if [type(o).__name__ for o in a.observables] != ["BitStrings"]:
        msgs.append("shared state: observables of an earlier EmulationConfig changed after building another")
    n1 = NoiseModel()
    n2 = NoiseModel(dephasing_rate=0.1)
    if n1.noise_types != () or n1.dephasing_rate not in (0.0, None):
        msgs.append("shared state: a default NoiseModel is affected by another instance")
    return msgs, "fresh"


RULE = ("generated devices (physical / virtual, 1-3 channels of every kind with optional fields at default and non-default values, EOM, DMM, calibrated layouts, "
        "default noise model), registers 2-D/3-D with and without layout, layouts, detuning maps given in non-canonical trap order with non-uniform weights, noise models "
        "(every parameter absent / None / zero / non-zero), emulation configurations (0-3 observables incl. Fidelity/Expectation with states and operators, extra backend "
        "options), states and operators (interleaved constructions and decodings, earlier instances re-observed after each), results; each encoded, schema-validated by the "
        "library itself, decoded and compared field by field; NoiseModel->SimConfig->NoiseModel; aliasing probes (in-place change through one instance / the caller's "
        "arguments); distinct = distinct case signatures (class, option set)")

CHECKS = [("device", check_device, 4), ("register", check_register, 2), ("detmap", check_detmap, 2), ("noise", check_noise, 3),
          ("state-op", check_state_operator, 2), ("config", check_config, 3), ("results", check_results, 1), ("fresh", check_fresh_instances, 0.2)]


def _state_repr(st):
    return [st[0], list(st[1]), st[2]]


def replay_case(name, state):
    rng = random.Random()
    rng.setstate((state[0], tuple(state[1]), state[2]))
    fn = {c[0]: c[1] for c in CHECKS}[name]
    try:
        msgs, _ = fn(rng)
    except Exception as ex:
        msgs = [f"{name}: encoding / decoding a valid object raised {type(ex).__name__}: {(str(ex).strip().splitlines() or [''])[0][:160]}"]
    return msgs


def run(rng, budget_s, known_match):
    import time
    t0 = time.time()
    failures, evals, samples, distinct = [], 0, [], set()
    names = [c[0] for c in CHECKS]
    weights = [c[2] for c in CHECKS]
    fn = {c[0]: c[1] for c in CHECKS}
    while time.time() - t0 < budget_s:
        nm = rng.choices(names, weights)[0]
        st = rng.getstate()
        try:
            msgs, case = fn[nm](rng)
        except Exception as ex:
            import traceback
            line = (str(ex).strip().splitlines() or [""])[0][:160]
            msgs, case = [f"{nm}: encoding / decoding a valid object raised {type(ex).__name__}: {line}"], nm + "/exc"
            trace = traceback.format_exc()[-600:]
        if case is None:
            continue
        evals += 1
        distinct.add(case)
        for m in msgs:
            failures.append(dict(prop="C17", clause=m, step=-1, op=[nm], known=known_match(m, nm, 0), rng_state=_state_repr(st)))
        if len(samples) < 6 and case not in samples:
            samples.append(case)
        if len([f for f in failures if not f.get("known")]) >= 5:
            break
    return failures, evals, len(distinct), samples
